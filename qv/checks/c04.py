"""C04 - variables, array elements and record fields never overlap or leak.

Explicit-state model checking (qv.explore.VX) of generated *driver programs*
(qv.c04_gen): one BASIC program per declaration list that numbers every storage
location and executes whatever operation the environment asks for, so that one
compile serves the whole search over operation sequences.  The oracle is a
plain Python dict location -> value; after every transition the two dumps
(constant and computed subscripts) - and for SUB-hosted drivers the caller's
view after the SUB has returned - are taken on forks of the machine and must
equal the dict."""
import itertools
import json
import time

from .. import impl
from ..explore import VX
from .. import c04_gen as G

LEVEL = 'model_checking'

O0O2 = [(0, False), (2, False)]
ALL6 = list(impl.CONFIGS)


def cfg_name(o, g):
    return 'O%d%s' % (o, 'g' if g else '')


# ---------------------------------------------------------------------------
# running one driver under the explorer


def _segments(events):
    """printed text split at the INPUT events: [before the 1st input, after the
    1st, after the 2nd, ...]; the '? ' prompt that precedes every input is
    removed"""
    segs = ['']
    for e in events:
        if e[0] == 'print':
            segs[-1] += e[1]
        elif e[0] == 'input':
            if segs[-1].endswith('? '):
                segs[-1] = segs[-1][:-2]
            segs.append('')
    return segs


def _out_since(node, j):
    """text printed after the j-th input line (j = 0: since the start)"""
    return ''.join(_segments(node.env.events)[j:])


def _end_of(node):
    if not node.halted:
        return 'running'
    o = node.outcome
    if o.end == 'trap':
        return 'trap:' + str(o.trap)
    if o.end == 'hostexc':
        return 'hostexc:' + str(o.exc)
    return o.end


def _diff_fields(drv, exp, obs):
    """which leaves differ between two dump texts -> (set of decl indices,
    number of differing cells) or None if the shapes of the texts differ"""
    el, ol = exp.split('\r\n'), obs.split('\r\n')
    if len(el) != len(ol):
        return None
    bad = set()
    n = 0
    for a, b in zip(el, ol):
        if a == b:
            continue
        fa, fb = a.split('|'), b.split('|')
        if len(fa) != len(fb) or fa[0] != fb[0]:
            return None
        for x, y in zip(fa[1:], fb[1:]):
            if x != y:
                n += 1
        bad.add(fa[0])
    return bad, n


def _decl_at_failure(drv, exp, obs):
    """the declaration whose line of a dump was being produced when the run
    stopped: the first expected line that is not completely present in the
    observed text -> 'class:kind' of that declaration ('-' if it is not a
    declaration line)"""
    el, ol = exp.split('\r\n'), obs.split('\r\n')
    i = len(ol) - 1
    if i < 0 or i >= len(el):
        return '-'
    tag = el[i].split('|')[0]
    if tag[:1] == 'D' and tag[1:].isdigit() and int(tag[1:]) < len(drv.decls):
        d = drv.decls[int(tag[1:])]
        return f'{d.cls}:{d.shape.kind}'
    return '-'


class FastVX(VX):
    """VX whose nodes stop *in front of* an INPUT instruction whose script
    queue is empty (instead of executing it, catching impl.Exhausted and
    rolling back to a snapshot): one fork per transition instead of three.
    The drivers consult the environment through INPUT only."""

    def _advance(self, machine, env):
        cpu = machine.cpu
        code = self.module.code
        n = len(code)
        io = impl._IO_OPCODE
        ticks = 0
        with impl.quiet():
            while not cpu.halted:
                pc = cpu.pc
                if pc >= n:
                    return 'halt', None, ticks, None
                if ticks >= self.horizon:
                    return 'horizon', None, ticks, None
                if code[pc] == io and code[pc + 1] == 2 and code[pc + 2] == 8 \
                        and not env.q.get('input'):
                    return 'need', 'input', ticks, machine
                try:
                    cpu.tick()
                except impl.Exhausted as e:
                    return 'hostexc', 'unexpected-consult:' + str(e.kind), ticks, None
                except (impl.Timeout, KeyboardInterrupt):
                    raise
                except BaseException as e:
                    return 'hostexc', type(e).__name__, ticks, None
                ticks += 1
        return 'halt', None, ticks, None

    _last = (None, None)

    def key(self, nd):
        """the canonical state of a node, computed once (the check callback
        and the explorer both need it)"""
        if self._last[0] is nd:
            return self._last[1]
        k = VX.key(self, nd)
        self._last = (nd, k)
        return k

    def feed(self, node, lines):
        """fork node, answer the next INPUTs with lines, run on; not counted
        as a transition (used for observations)"""
        m = impl.fork_machine(node.machine)
        env = m.cpu.devices['terminal'].impl
        env.q.setdefault('input', []).extend(lines)
        return self._make(m, node.path + tuple(('input', ln) for ln in lines), None,
                          node.dev, node.depth + 1)


class Explorer:
    def __init__(self, drv, opt, dbg, max_depth, viol_cap=40, binary=None, lean=False):
        # lean (quick tier): a read is explored as the last operation of a
        # sequence only (the dump operation - which reads everything - can
        # be followed by anything), and drivers whose explored operations use
        # constant subscripts are observed through the constant-subscript
        # dump only
        self.lean = lean
        self.drv = drv
        self.opt = opt
        self.dbg = dbg
        self.binary = binary
        self.obs_memo = {}       # canonical VM state -> expected texts of the observations
        self.memo_hits = 0
        self.nontrivial = 0      # distinct VM states whose model store is not all-default
        self.st0 = None
        self.max_depth = max_depth
        self.viol = []
        self.model = {}
        self.menus = {}
        self.validated = 0
        self.probes_run = 0
        self.outcomes = set()
        self.vx = None
        self.viol_cap = viol_cap
        self.dead = False

    # -- violation ------------------------------------------------------
    def _violation(self, divergence, probe, path_ops, probe_lines, expected, observed,
                   end=None, op=None, victims=None, at=None):
        drv = self.drv
        feat = drv.feature_base()
        feat['divergence'] = divergence
        feat['probe'] = probe
        feat['end'] = end or '-'
        if op is None:
            feat['op'] = 'start'
            feat['op_target'] = '-'
        else:
            feat['op'] = op.kind
            feat['op_target'] = (f'{op.leaf.decl.cls}:{op.leaf.decl.shape.kind}'
                                 if op.leaf is not None else '-')
        feat['victims'] = victims or '-'
        # the declaration that the failing statement was accessing
        feat['at'] = at or (feat['op_target'] if probe == 'op-output' else '-')
        feat['config'] = cfg_name(self.opt, self.dbg)
        lines = [o.line for o in path_ops] + list(probe_lines)
        case = {'driver': drv.ident(), 'describe': drv.describe(),
                'opt': self.opt, 'dbg': self.dbg, 'source': drv.source,
                'ops': [o.label() for o in path_ops], 'probe': probe,
                'lines': lines,
                'checked_from_line': max(0, len(path_ops) - (0 if probe != 'op-output' else 1)),
                'expected_tail': expected}
        size = len(path_ops) * 1000 + len(drv.leaves) * 10 + len(drv.decls)
        self.viol.append((feat, case, expected, observed, size))
        if len(self.viol) >= self.viol_cap:
            self.dead = True

    # -- VX callbacks ------------------------------------------------------
    def menu(self, node):
        if self.dead:
            return []
        ops = self.menus[node.path]
        return [('input', o.line, 0) for o in ops.values()]

    def _ops_of(self, path):
        """Op objects along a path (for the replay record)"""
        out = []
        for k in range(len(path)):
            out.append(self.menus[path[:k]][path[k][1]])
        return out

    def check(self, child, parent, choice):
        drv = self.drv
        if parent is None:
            st = drv.initial()
            self.st0 = st
            self.model[child.path] = st
            op = None
            exp_out = ''
            obs_out = _out_since(child, 0)
            path_ops = []
        else:
            op = self.menus[parent.path][choice[1]]
            st, exp_out = drv.apply(self.model[parent.path], op)
            self.model[child.path] = st
            obs_out = _out_since(child, len(child.path))
            path_ops = self._ops_of(child.path)
            self.validated += 1
        self.outcomes.add((op.kind if op else 'start', _end_of(child), exp_out == obs_out))
        if child.halted:
            self._violation('abnormal-end', 'op-output', path_ops, [], exp_out,
                            {'end': _end_of(child), 'output': obs_out,
                             'where': child.outcome.where}, end=_end_of(child), op=op,
                            at=(_decl_at_failure(drv, exp_out, obs_out)
                                if op is not None and op.leaf is None else None))
            self.menus[child.path] = {}
            return []
        if obs_out != exp_out:
            self._violation('value', 'op-output', path_ops, [], exp_out, obs_out, op=op)
        if self.lean and op is not None and op.kind == 'read':
            self.menus[child.path] = {}
        else:
            self.menus[child.path] = {o.line: o for o in drv.menu(st)}
        # observations on one fork: the probes are run one after the other.
        # They depend on the machine state only, so a state that was observed
        # before (reached by another operation sequence) is observed again
        # only if the model now expects something else - which is then a
        # violation, because the earlier observation agreed with the model.
        probes = drv.probes(st)
        if self.lean and drv.mode == 'c':
            probes = [p for p in probes if p[0] != 'dump-computed']
        sig = tuple(p[2] for p in probes)
        key = self.vx.key(child)
        if self.obs_memo.get(key) == sig:
            self.memo_hits += 1
            return []
        if key not in self.obs_memo:
            self.obs_memo[key] = sig
            if st != self.st0:
                self.nontrivial += 1
        lines = [ln for p in probes for ln in p[1]]
        nd = self.vx.feed(child, lines)
        segs = _segments(nd.env.events)[len(child.path) + 1:]
        end = _end_of(nd)
        consumed = len(lines) - len(nd.env.q.get('input', ()))
        j = 0
        exp_acc = ''
        upto = []
        for pi, (name, plines, exp, must_halt) in enumerate(probes):
            self.probes_run += 1
            obs = ''.join(segs[j:j + len(plines)])
            j += len(plines)
            exp_acc += exp
            upto = upto + list(plines)
            last = pi == len(probes) - 1
            if consumed > j:
                ok_end = True                   # the machine went on to the next probe
            elif consumed == j and last:
                ok_end = (end == 'halt') if must_halt else (end == 'running')
            else:
                ok_end = False                  # it stopped inside this probe
            self.outcomes.add((name, 'ok' if ok_end else end, obs == exp))
            if not ok_end:
                self._violation('abnormal-end', name, path_ops, upto, exp_acc,
                                {'end': end, 'output': ''.join(segs),
                                 'where': nd.outcome.where if nd.halted else None},
                                end=end, op=op,
                                at=_decl_at_failure(drv, exp_acc, ''.join(segs)))
                break
            if obs != exp:
                d = _diff_fields(drv, exp, obs)
                victims = 'unparsable'
                if d is not None:
                    decls, n = d
                    tgt = 'D%d' % op.leaf.decl.k if op is not None and op.leaf is not None else None
                    kinds = set()
                    for t in decls:
                        kinds.add('target-decl' if t == tgt else 'other-decl')
                    victims = ','.join(sorted(kinds)) or 'none'
                self._violation('value', name, path_ops, upto, exp_acc, ''.join(segs[:j]),
                                op=op, victims=victims)
                break
        return []

    def run(self):
        drv = self.drv
        if self.binary is None:
            r = impl.compile_text(drv.source, self.opt, self.dbg, want_listing=False, limit=300.0)
            if not r.ok:
                self._violation('compile', 'compile', [], [], 'the driver compiles', r.brief())
                return {'states': 0, 'transitions': 0}
            self.binary = r.binary
        mod = impl.load(self.binary)
        self.vx = FastVX(mod, self.menu, self.check, horizon=60000, max_depth=self.max_depth)
        self.vx.run()
        return self.vx.stats()


def depth_for(drv, dmax, cap):
    m = max(2, drv.n_menu())
    d = 1
    while d < dmax and sum(m ** k for k in range(1, d + 2)) <= cap:
        d += 1
    return d


def explore_chunk(chunk, tier):
    """chunk: list of (family name, ident dict, configs, dmax, cap, lean)"""
    impl.parse_cache(True)
    viol = []
    st = {'evaluations': 0, 'states': 0, 'transitions': 0,
          'traces_validated_against_impl': 0, 'probes': 0, 'dedup_hits': 0,
          'drivers': 0, 'driver_configs': 0, 'distinct_modules': 0,
          'observations_skipped_same_state': 0, 'distinct_nontrivial': 0, 'outcomes': set(),
          'depth_hist': {}, 'horizon_hits': 0, 'sources': set(), 'cpu_by_driver': []}
    for fam_name, ident, cfgs, dmax, cap, lean in chunk:
        t0 = time.process_time()
        drv = G.make_driver(ident)
        d = depth_for(drv, dmax, cap)
        st['drivers'] += 1
        st['sources'].add(hash(drv.source))
        per_cfg = []
        # configurations whose module is byte-identical outside the debug
        # section run the same computation: one exploration serves them all
        groups = {}
        for o, g in cfgs:
            r = impl.compile_text(drv.source, o, g, want_listing=False, limit=300.0)
            st['driver_configs'] += 1
            if not r.ok:
                ex = Explorer(drv, o, g, d)
                ex._violation('compile', 'compile', [], [], 'the driver compiles', r.brief())
                per_cfg.append((ex.viol, [cfg_name(o, g)]))
                continue
            sec = impl.split_sections(r.binary)
            k = tuple(sec.get(i) for i in (1, 2, 3, 4))
            grp = groups.get(k)
            if grp is None:
                groups[k] = [r.binary, (o, g), [cfg_name(o, g)]]
            else:
                grp[2].append(cfg_name(o, g))
        for binary, (o, g), names in groups.values():
            ex = Explorer(drv, o, g, d, binary=binary, lean=lean)
            s = ex.run()
            st['distinct_modules'] += 1
            st['states'] += s.get('states', 0)
            st['transitions'] += s.get('transitions', 0)
            st['dedup_hits'] += s.get('dedup_hits', 0)
            st['horizon_hits'] += s.get('horizon_hits', 0)
            st['traces_validated_against_impl'] += ex.validated
            st['probes'] += ex.probes_run
            st['observations_skipped_same_state'] += ex.memo_hits
            st['evaluations'] += ex.validated + ex.probes_run
            st['distinct_nontrivial'] += ex.nontrivial
            for oc in ex.outcomes:
                st['outcomes'].add((ident['family'],) + oc)
            key = 'd%d' % d
            st['depth_hist'][key] = st['depth_hist'].get(key, 0) + 1
            per_cfg.append((ex.viol, names))
        viol.extend(_merge_configs(per_cfg, cfgs))
        dt = time.process_time() - t0
        st['cpu_by_driver'].append((fam_name, round(dt, 2), drv.describe() + ' ' + ','.join(cfg_name(o, g) for o, g in cfgs)))
    return viol, st


def _merge_configs(per_cfg, cfgs):
    """keep, per driver and per (divergence, probe, op, op_target, victims, end),
    the smallest violation; replace the single config by the set of configs
    that show it"""
    best = {}
    for vs, cnames in per_cfg:
        for feat, case, exp, obs, size in vs:
            k = (feat['divergence'], feat['probe'], feat['op'], feat['op_target'],
                 feat['victims'], feat['end'], feat['at'])
            b = best.get(k)
            if b is None:
                best[k] = [feat, case, exp, obs, size, set(cnames)]
            else:
                b[5].update(cnames)
                if size < b[4]:
                    b[0], b[1], b[2], b[3], b[4] = feat, case, exp, obs, size
    out = []
    names = [cfg_name(o, g) for o, g in cfgs]
    for feat, case, exp, obs, size, cs in best.values():
        feat = dict(feat)
        feat['config'] = 'all' if len(cs) == len(names) else ','.join(sorted(cs))
        out.append((feat, case, exp, obs, size))
    return out


# ---------------------------------------------------------------------------
# the bounded spaces


ALL_SIDS = [s.sid for s in G.SHAPES]
CORE = ['i', 'z', 'a1', 'r2', 'rn', 'ar']          # small shapes for lists
CORE_BIG = ['a1', 'r2', 'rn', 'ar']
SITE_SUB = ['S', 'L', 'T', 'P']


def _modes(pairs):
    return ['c', 'v'] if any(G.SHAPE[s].is_array for s, _ in pairs) else ['c']


def _ok(pairs):
    return all(G.supported(s, c) for s, c in pairs)


def _lay(pairs, mode):
    return {'family': 'layout', 'decls': [list(p) for p in pairs], 'mode': mode}


def space(tier):
    """-> list of (family name, items, description); an item is
    (ident, configs, dmax, cap, lean)"""
    q = tier == 'quick'
    fams = []

    # (1) single declarations: every shape x every class x both subscript modes
    items = []
    for cls in G.CLASSES:
        for sid in ALL_SIDS:
            if not _ok([(sid, cls)]):
                continue
            for mode in _modes([(sid, cls)]):
                items.append((_lay([(sid, cls)], mode), O0O2, 3, 1000 if q else 3000, q))
    fams.append(('single', items, {
        'what': 'one declaration: 15 shapes x 6 storage classes (unsupported cells listed), '
                'subscript modes c/v for arrays',
        'configs': 'O0,O2', 'max_depth': 3, 'cap': 1000 if q else 3000, 'lean': q}))

    # (2) sandwich: scalar, A, scalar in one storage class
    items = []
    for cls in G.CLASSES:
        for n, sid in enumerate(ALL_SIDS):
            pairs = [('i', cls), (sid, cls), ('z', cls)]
            if not _ok(pairs):
                continue
            modes = _modes(pairs)
            if q:
                modes = [modes[n % len(modes)]]
            for mode in modes:
                items.append((_lay(pairs, mode), O0O2, 2, 1000, q))
    fams.append(('sandwich', items, {
        'what': 'INTEGER scalar, shape A, STRING scalar declared in this order in one storage '
                'class, all 15 A x 6 classes; quick: one subscript mode per A (alternating), '
                'thorough: both',
        'configs': 'O0,O2', 'max_depth': 2, 'cap': 1000, 'lean': q}))

    # (3) same-class lists over the core shapes
    items = []
    for cls in G.CLASSES:
        lists = []
        for a, b in itertools.product(CORE_BIG, repeat=2):
            lists.append([a, b, 'i'])
        if not q:
            for t in itertools.product(CORE, repeat=2):
                lists.append(list(t))
            for t in itertools.product(['i', 'a1', 'r2'], repeat=3):
                if list(t) not in lists:
                    lists.append(list(t))
            for t in itertools.product(['z', 'ar'], repeat=3):
                lists.append(list(t))
        for n, l in enumerate(lists):
            pairs = [(s, cls) for s in l]
            if not _ok(pairs):
                continue
            modes = _modes(pairs)
            mode = modes[n % len(modes)]
            items.append((_lay(pairs, mode), O0O2, 2, 1000, True))
    fams.append(('lists', items, {
        'what': ('ordered lists in one storage class; (A, B, INTEGER) for A, B in %s; '
                 'thorough adds all lists of length 2 over %s and of length 3 over [i, a1, r2] '
                 'and over [z, ar]' % (CORE_BIG, CORE)),
        'configs': 'O0,O2', 'max_depth': 2, 'cap': 1000, 'lean': True,
        'mode': 'alternating c/v by position in the enumeration'}))

    # (4) mixed storage classes
    items = []
    shp = [('r2', 'a1')] if q else [('i', 'r2'), ('r2', 'a1'), ('a1', 'i'), ('r2', 'r2'),
                                    ('a1', 'ar'), ('rn', 'z')]
    cpairs = [(a, b) for a in SITE_SUB for b in SITE_SUB if a != b] + [('M', 'S'), ('S', 'M')]
    cpairs += [('F', c) for c in ('S', 'L', 'T')] + [(c, 'F') for c in ('S', 'L', 'T')]
    n = 0
    for (ca, cb) in cpairs:
        for (sa, sb) in shp:
            if 'F' in (ca, cb):
                # an array parameter handed on is the known finding: scalars / records only
                sa, sb = {'a1': 'i', 'ar': 'r2'}.get(sa, sa), {'a1': 'i', 'ar': 'r2'}.get(sb, sb)
            pairs = [(sa, ca), (sb, cb)]
            if _ok(pairs):
                modes = _modes(pairs)
                items.append((_lay(pairs, modes[n % len(modes)]), O0O2, 2, 1000, q))
                n += 1
    if not q:
        # one declaration in each class of the SUB site, every rotation
        for sid in ('i', 'r2', 'a1'):
            for perm in itertools.permutations(SITE_SUB):
                pairs = [(sid, c) for c in perm]
                if _ok(pairs):
                    modes = _modes(pairs)
                    items.append((_lay(pairs, modes[n % len(modes)]), O0O2, 2, 1000, q))
                    n += 1
    fams.append(('mixed', items, {
        'what': 'two declarations in two different storage classes (all ordered class pairs '
                'of the SUB site S/L/T/P, F with S/L/T, and M with S); thorough adds 4 '
                'declarations, one per class S/L/T/P, in every order',
        'shape_pairs': [list(x) for x in shp], 'configs': 'O0,O2', 'max_depth': 2, 'lean': q}))

    # (5) recursion: the driver body inside a SUB that calls itself
    items = []
    recs = [
        ([('i', 'S'), ('i', 'T'), ('i', 'L'), ('i', 'P'), ('z', 'F')], 5),
        ([('r2', 'S'), ('a1', 'T'), ('z', 'L'), ('a1', 'L'), ('a1', 'P')], 4 if q else 5),
    ]
    if not q:
        recs += [
            ([('z', 'S'), ('z', 'T'), ('z', 'L'), ('z', 'P'), ('r2', 'F')], 5),
            ([('a1', 'S'), ('r2', 'T'), ('r2', 'L'), ('ar', 'L'), ('ar', 'P')], 5),
            ([('rn', 'T'), ('d', 'L'), ('d', 'P'), ('rn', 'L'), ('rn', 'F')], 5),
            ([('dy', 'S'), ('an', 'T'), ('dy', 'L'), ('b1', 'L'), ('b1', 'P')], 4),
            ([('i', 'L'), ('a1', 'F')], 4),
        ]
    for n, (pairs, dep) in enumerate(recs):
        for mode in (_modes(pairs) if not q else [_modes(pairs)[-1]]):
            for cf in ([(0, False), (0, True)], [(1, False), (1, True)], [(2, False), (2, True)]):
                items.append(({'family': 'recursion', 'decls': [list(p) for p in pairs],
                               'mode': mode}, cf, dep, 6000 if q else 20000, False))
    fams.append(('recursion', items, {
        'what': 'SUB drv(dep, params) with the loop inside; ops: write any location, call '
                '(dep < 3; passes its own locals (class P) or its own parameter (class F) as '
                'the arguments), return; after every '
                'transition both dumps and a complete unwind (return + dump at every level, '
                'then the caller\'s view) are compared with a stack-of-dicts model',
        'lists': [[' '.join(f'{s}:{c}' for s, c in pairs), dep] for pairs, dep in recs],
        'configs': 'all 6 (one item per optimisation level)',
        'max_call_depth': G.REC_MAXDEPTH, 'max_depth': 'per list, see lists'}))

    # (6) by-reference / by-value arguments
    items = []
    hosts = ['i', 'z', 'a1', 'r2', 'ar', 'rn'] if q else \
        ['i', 'l', 'f', 'd', 'z', 'a1', 'b1', 'a2', 'r2', 'rn', 'ar', 'an', 'dy', 'im']
    for cls in ('M', 'S', 'L', 'T'):
        for sid in hosts:
            pairs = [(sid, cls)]
            if sid in ('i', 'z'):
                pairs = [(sid, cls), (sid, cls)]
            if not _ok(pairs):
                continue
            items.append(({'family': 'byref', 'decls': [list(p) for p in pairs], 'mode': 'c'},
                          ALL6 if sid in ('i', 'r2', 'ar') else O0O2, 2, 700 if q else 2000,
                          False))
    fams.append(('byref', items, {
        'what': 'every location of the host declaration passed to SUB w1(p) in the forms x, '
                '(x), x + 0 / x + "", literal, and every same-typed pair (incl. the same '
                'location twice) to SUB w2(p, q); the callee prints, writes, prints',
        'hosts': hosts, 'host_classes': ['M', 'S', 'L', 'T'],
        'configs': 'all 6 for hosts i, r2, ar; O0,O2 otherwise', 'max_depth': 2,
        'cap': 700 if q else 2000}))
    return fams


def _weight(item):
    """rough cost of an item, to start the expensive ones first"""
    ident, cfgs, dmax, cap, lean = item
    drv = G.make_driver(ident)
    d = depth_for(drv, dmax, cap)
    return (drv.n_menu() ** d) * len(cfgs) * (len(drv.leaves) + 4) * (1 if lean else 2)


def run(chk):
    fams = space(chk.tier)
    desc = {}
    work = []
    for name, items, d in fams:
        if chk.only and name not in chk.only:
            chk.cov['exhaustive'] = False
            continue
        d = dict(d)
        d['drivers'] = len(set(json.dumps(it[0], sort_keys=True) for it in items))
        d['items'] = len(items)
        desc[name] = d
        work += [(name,) + tuple(it) for it in items]
        for it in (items[0], items[-1]):
            drv = G.make_driver(it[0])
            st0 = drv.initial()
            chk.sample({'family': name, 'driver': drv.describe(),
                        'source_lines': drv.source.count('\n'),
                        'locations': [lf.ctext for lf in drv.leaves][:12],
                        'first_ops': [o.label() + '  <- ' + o.line for o in drv.menu(st0)[:4]]})
    # one pool pass over all families; the 24 most expensive items first (one
    # per worker), the rest in family order (similar programs adjacent)
    ws = sorted(range(len(work)), key=lambda i: -_weight(work[i][1:]))
    head = ws[:24]
    order = head + [i for i in range(len(work)) if i not in set(head)]
    cpu = {}
    for viol, st in chk.pmap(explore_chunk, [work[i] for i in order], extra=(chk.tier,), chunk=1):
        chk.add_violations(viol)
        for name, c, what in st.pop('cpu_by_driver'):
            cpu.setdefault(name, []).append((c, what))
        chk.merge_stats(st)
    for name, lst in cpu.items():
        lst.sort(reverse=True)
        desc[name]['cpu_s'] = round(sum(c for c, _ in lst), 1)
        desc[name]['slowest_items'] = [list(c) for c in lst[:3]]
    chk.cov['cpu_s_total'] = round(sum(c for lst in cpu.values() for c, _ in lst), 1)
    chk.cov['unsupported_cells'] = {f'{s}:{c}': why for (s, c), why in G.UNSUPPORTED.items()}
    chk.cov['shapes'] = {s.sid: (s.kind, s.elem, s.dims) for s in G.SHAPES}
    chk.cov['classes'] = G.CLASS_TEXT
    chk.assumptions = [
        'PRINT renders small non-negative integers of every numeric type as " n " and strings '
        'verbatim (C17 checks PRINT itself)',
        'INPUT assigns the seven fields of a well-formed answer line (C18 checks INPUT)',
        'nothing is claimed for declaration lists, operation sequences or call depths above the '
        'stated bounds',
        'per-line parse memo is byte-identical to re-parsing (DESIGN 2.4)',
        'configurations whose modules are byte-identical outside the debug section behave alike '
        '(one exploration serves them)',
    ]
    chk.finish(
        rule=('one driver program per (declaration list, subscript mode); VX explores every '
              'sequence of {write l, read l, dump} (layout; lean: a read only as the last '
              'operation), {write l, call, return} (recursion), '
              '{w1(form of l), w2(l, l\')} (byref) up to the depth chosen per driver (largest '
              'd <= max_depth with sum m^k <= cap, m = menu size); evaluations = transitions '
              'whose output was compared with the dict model + fork observations (dumps, '
              'caller view, unwind) compared with it; distinct_nontrivial = distinct canonical '
              'VM states (per distinct module) whose model store is not all-default and whose '
              'complete content was dumped and compared; outcomes = distinct (family, '
              'operation or observation kind, end, output matches) tuples'),
        extra_cov={'families': desc})


# ---------------------------------------------------------------------------
# replay


def replay(rec):
    case = rec['case']
    src = case['source']
    lines = case['lines']
    k = case['checked_from_line']
    print('--- driver:', case['describe'], ' config: O%d%s' % (case['opt'], ' -g' if case['dbg'] else ''))
    print(src)
    print('--- operations:', case['ops'], ' observation:', case['probe'])
    for ln in lines:
        print('   input:', ln)
    r = impl.compile_text(src, case['opt'], case['dbg'])
    if not r.ok:
        print('compile:', r.brief())
        return 1
    mod = impl.load(r.binary)
    env = impl.Env({'input': list(lines)})
    out, _ = impl.run_module(mod, env, horizon=400000)
    tail = ''.join(_segments(out.events)[k + 1:])
    if out.end == 'exhausted' and tail.endswith('? '):
        tail = tail[:-2]            # the prompt of the INPUT that found the script empty
    exp = case['expected_tail']
    print('--- end:', out.end, out.trap, out.exc, out.where)
    print('expected:', repr(exp))
    print('observed:', repr(tail))
    must_halt = case['probe'] in ('caller-view', 'unwind')
    end_ok = out.end == ('halt' if must_halt else 'exhausted')
    if tail != exp or not end_ok:
        print('STILL VIOLATES')
        return 1
    print('no violation')
    return 0
