"""C07 - the virtual machine is total: every run ends in a halt or a trap.

Families (DESIGN section 4, C07):
  errors      run-time error catalogue with the cause known by construction +
              statements outside the reference subset with limit values,
              x 3 arming modes x {-g, no -g} x {O0, O2}
  using       every PRINT USING format string over an alphabet up to a length
              (format strings are run-time data of one driver program)
  devices     device-using programs; each device call may fail, be missing or
              answer a boundary value; deviation bounds 0, 1 (quick), 2 (thorough)
  realdev     the outside-subset statements against the implementation's own
              dumb-terminal peripherals
  interrupts  SX: an interrupt request at EVERY instruction boundary of every
              run of a program catalogue (fork, real signal_handler, one tick),
              and an interrupt delivered during every device call of a run
              through the real run() loop

Every case of errors/using/devices/realdev is executed twice: tick by tick and
through the machine's own run() loop; both must end in the same state.
"""
import os
import re
import shutil
import signal
import tempfile

from .. import impl, explore
from .. import c07_catalogue as cat
from .. import c07_env as denv

LEVEL = 'model_checking'

CFG4 = [(0, False), (0, True), (2, False), (2, True)]
CFG2 = [(0, False), (2, True)]
HORIZON = 20000
RUN_LIMIT = 120.0
COMPILE_LIMIT = 180.0     # wall clock; generous because the machine is shared
DEFINED_ENDS = ('halt', 'eoc', 'trap')


def cfg_name(o, g):
    return f'O{o}{"g" if g else ""}'


def arming_lines(arming):
    return {'none': [], 'goto': ['ON ERROR GOTO h'], 'next': ['ON ERROR RESUME NEXT']}[arming]


# ---------------------------------------------------------------------------
# observations

_FROZEN = re.compile(r'\b(frozenset|set)\(\{([^{}]*)\}\)')


def _stable(x):
    if isinstance(x, tuple):
        return tuple(_stable(y) for y in x)
    if isinstance(x, list):
        return [_stable(y) for y in x]
    if isinstance(x, str) and 'set({' in x:
        return _FROZEN.sub(lambda m: m.group(1) + '({' + ', '.join(sorted(m.group(2).split(', '))) + '})', x)
    return x


def canon_machine(m):
    """explore.canon_machine with a stable text for set-valued attributes: the
    core renders an attribute it does not know with repr(), and the iteration
    order of a (frozen)set differs between a machine and its deep copy
    (cpu.stmt_starts, added to the CPU by a fix commit)"""
    return _stable(explore.canon_machine(m))


def obs_of(out):
    """short text of an outcome: 'halt' | 'trap:X' | 'exc:X' | ..."""
    if out.end == 'trap':
        return 'trap:' + str(out.trap)
    if out.end == 'hostexc':
        return 'exc:' + str(out.exc)
    return str(out.end)


def printed(events):
    return ''.join(e[1] for e in events if e and e[0] == 'print')


def describe(out):
    d = {'end': out.end, 'trap': out.trap, 'exc': out.exc, 'where': out.where,
         'ticks': out.ticks, 'events': impl.jsonable(list(out.events or [])[-6:])}
    return d


def compare_runs(o1, m1, ev1, o2, m2, ev2):
    """tick-by-tick execution vs run(): -> None or a short difference text"""
    if (o1.end, o1.trap, o1.exc) != (o2.end, o2.trap, o2.exc):
        return f'outcome {obs_of(o1)} vs {obs_of(o2)}'
    if o1.end == 'hostexc':
        return None
    if ev1 != ev2 and repr(ev1) != repr(ev2):
        return 'device trace differs'
    if canon_machine(m1) != canon_machine(m2):
        return 'machine state differs'
    return None


def run_twice(module, mkenv, horizon=HORIZON):
    """-> (tick outcome, run() outcome or None, difference or None)"""
    e1 = mkenv()
    if isinstance(e1, denv.DevEnv):
        o1, m1 = denv.run_ticks(module, e1, horizon)
    else:
        o1, m1 = impl.run_module(module, e1, horizon=horizon)
    if o1.end in ('horizon', 'stuck'):
        return o1, None, None, e1, None
    e2 = mkenv()
    try:
        with impl.time_limit(RUN_LIMIT):
            if isinstance(e2, denv.DevEnv):
                o2, m2 = denv.run_loop(module, e2)
            else:
                o2, m2 = impl.run_via_run(module, e2)
    except impl.Timeout:
        o2 = impl.Outcome()
        o2.end = 'timeout'
        o2.events = []
        return o1, o2, 'run() did not end within 120 s', e1, e2
    diff = compare_runs(o1, m1, e1.events, o2, m2, e2.events)
    return o1, o2, diff, e1, e2


# ---------------------------------------------------------------------------
# family errors

def judge_error(module, arming, expect):
    """-> (list of (divergence, observed), tick outcome)"""
    o1, o2, diff, e1, e2 = run_twice(module, lambda: impl.Env({}))
    bad = []
    for o, how in ((o1, 'tick'), (o2, 'run')):
        if o is None:
            continue
        if o.end == 'hostexc':
            bad.append(('host-exception', obs_of(o)))
        elif o.end not in DEFINED_ENDS and o.end != 'horizon':
            bad.append(('undefined-halt', obs_of(o)))
    if diff and not bad:
        bad.append(('tick-vs-run', diff))
    if arming == 'none' and not bad:
        kind = expect[0]
        o = o1
        done = o.end in ('halt', 'eoc')
        if kind == 'trap':
            if o.end != 'trap':
                bad.append(('no-error-reported', obs_of(o)))
            elif o.trap not in expect[1]:
                bad.append(('wrong-class', obs_of(o)))
        elif kind == 'ok':
            if not done or 'after' not in printed(o.events):
                bad.append(('spurious-error', obs_of(o)))
        elif kind == 'maybe':
            if o.end == 'trap' and o.trap not in expect[1]:
                bad.append(('wrong-class', obs_of(o)))
            elif o.end == 'horizon':
                bad.append(('no-halt', obs_of(o)))
        else:
            if o.end == 'horizon':
                bad.append(('no-halt', obs_of(o)))
    if arming in cat.HANDLER_MODES and not bad:
        bad.extend(judge_handler_mode(arming, expect, o1))
    # de-duplicate (tick and run usually agree)
    seen = []
    for b in bad:
        if b not in seen:
            seen.append(b)
    return seen, o1


def judge_handler_mode(arming, expect, o):
    """ON ERROR GOTO h with a handler that gives up (goto0), fails itself (fail)
    or ends the program (end).  Entering a GOTO handler needs no debug info, so
    the demands hold for every configuration:
      goto0  ON ERROR GOTO 0 inside the handler re-raises the error: the run ends
             with the error of the *original* class
      fail   a second error inside a handler is fatal: the run ends with that
             error (illegal function call, ASC(""), by construction)
      end    the handler was entered (how the run ends after END inside a
             handler is not specified)"""
    kind = expect[0]
    text = printed(o.events)
    entered = 'H' in text
    done = o.end in ('halt', 'eoc')
    bad = []
    if o.end == 'horizon':
        return [('no-halt', obs_of(o))]
    if kind == 'ok':
        if entered or not done or 'after' not in text:
            bad.append(('spurious-error', obs_of(o)))
        return bad
    if kind == 'trap' and not entered:
        return [('no-error-reported', obs_of(o) + ' (handler not entered)')]
    if kind not in ('trap', 'maybe') or not entered:
        return bad
    if 'not reached' in text:
        bad.append(('handler-continued-after-fatal-error', obs_of(o)))
    elif arming == 'goto0':
        if o.end != 'trap':
            bad.append(('error-not-re-raised', obs_of(o)))
        elif o.trap not in expect[1]:
            bad.append(('wrong-class', obs_of(o)))
    elif arming == 'fail':
        if o.end != 'trap':
            bad.append(('error-in-handler-not-fatal', obs_of(o)))
        elif o.trap != cat.IFC:
            bad.append(('wrong-class', obs_of(o)))
    return bad


def _debug_class(cfgs):
    gs = set(g for _, g in cfgs)
    return 'both' if len(gs) == 2 else ('g' if True in gs else 'nog')


def _opt_class(cfgs):
    os_ = sorted(set(o for o, _ in cfgs))
    return 'all' if len(os_) == 2 else f'O{os_[0]}'


def errors_chunk(chunk, tier):
    impl.parse_cache(True)
    viol = []
    st = {'evaluations': 0, 'runs': 0, 'ticks': 0, 'not_accepted': 0,
          'outcomes': set(), 'nontrivial': 0, 'handler_entries': 0, 'resumed': 0,
          'errors_cases': 0, 'handler_mode_entries': 0}
    for case, ctx, site, extra_modes in chunk:
        st['errors_cases'] += 1
        groups = {}
        expect = case['expect']
        if ctx == 'index' and expect[0] == 'maybe':
            # used as a subscript of xa%(0 TO 3), a value that is produced after
            # all may be out of range or too large for the index conversion
            expect = ('maybe', tuple(sorted(set(expect[1]) | {cat.SUBS, cat.OVF})))
        for arming in cat.ARMINGS + list(extra_modes):
            src = cat.build_source(case, arming, ctx, site)
            cfgs_ = CFG4 if (arming in cat.ARMINGS or tier != 'quick') else CFG2
            for o, g in cfgs_:
                r = impl.compile_text(src, o, g, limit=COMPILE_LIMIT, want_listing=False)
                if not r.ok:
                    st['not_accepted'] += 1
                    st['outcomes'].add(('not-accepted', r.kind, case['cause']))
                    continue
                mod = impl.load(r.binary)
                bad, out = judge_error(mod, arming, expect)
                st['evaluations'] += 1
                st['runs'] += 2
                st['ticks'] += out.ticks * 2
                text = printed(out.events)
                st['outcomes'].add((case['cause'], arming, g, obs_of(out)))
                if out.end == 'trap' or 'H' in text:
                    st['nontrivial'] += 1
                if arming == 'goto' and 'H' in text:
                    st['handler_entries'] += 1
                if arming in cat.HANDLER_MODES and 'H' in text:
                    st['handler_mode_entries'] += 1
                if arming != 'none' and 'after' in text and case['expect'][0] == 'trap':
                    st['resumed'] += 1
                for div, obs in bad:
                    groups.setdefault((arming, div, obs), []).append((o, g, src, describe(out)))
        for (arming, div, obs), lst in groups.items():
            cfgs = [(o, g) for o, g, _, _ in lst]
            o, g, src, desc = lst[0]
            feat = {'family': 'errors', 'divergence': div, 'observed': obs,
                    'cause': case['cause'], 'construct': case['construct'],
                    'case': case['id'], 'operands': case['operands'], 'context': ctx, 'site': site,
                    'arming': arming, 'debug': _debug_class(cfgs), 'opt': _opt_class(cfgs)}
            viol.append((feat,
                         {'family': 'errors', 'src': src, 'opt': o, 'dbg': g, 'arming': arming,
                          'expect': list(expect),
                          'configs': [cfg_name(*c) for c in cfgs]},
                         expect_text(expect, arming), desc, len(src)))
    return viol, st


def expect_text(expect, arming):
    base = 'no host exception; halted with a defined halt reason; tick-by-tick and run() agree'
    if arming == 'goto0':
        return base + '; the handler re-raises with ON ERROR GOTO 0: ends with the original error class ' + \
            '/'.join(expect[1] if len(expect) > 1 else ())
    if arming == 'fail':
        return base + '; the handler itself fails with ASC(""): ends with INVALID_OPERAND_VALUE'
    if arming == 'end':
        return base + '; the handler is entered and ends the program'
    if arming != 'none':
        return base + ' (handler armed: totality only)'
    if expect[0] == 'trap':
        return base + '; trap class in ' + '/'.join(expect[1])
    if expect[0] == 'ok':
        return base + '; program completes (no error by construction)'
    if expect[0] == 'maybe':
        return base + '; completes or traps with ' + '/'.join(expect[1])
    return base


# ---------------------------------------------------------------------------
# family using

def using_script(fmt):
    return {'inkey': [fmt]}


def judge_using(module, fmt):
    o1, o2, diff, e1, e2 = run_twice(module, lambda: impl.Env(using_script(fmt)))
    bad = []
    for o in (o1, o2):
        if o is None:
            continue
        if o.end == 'hostexc':
            bad.append(('host-exception', obs_of(o)))
        elif o.end not in DEFINED_ENDS:
            bad.append(('undefined-halt', obs_of(o)))
    if diff and not bad:
        bad.append(('tick-vs-run', diff))
    seen = []
    for b in bad:
        if b not in seen:
            seen.append(b)
    return seen, o1


def using_chunk(chunk, cfgs):
    impl.parse_cache(True)
    viol = []
    st = {'evaluations': 0, 'runs': 0, 'ticks': 0, 'outcomes': set(), 'nontrivial': 0,
          'using_cases': 0}
    mods = {}
    for vname, arming, fmt in chunk:
        groups = {}
        for o, g in cfgs:
            key = (vname, arming, o, g)
            if key not in mods:
                src = cat.using_source(vname, arming)
                r = impl.compile_text(src, o, g, limit=COMPILE_LIMIT, want_listing=False)
                if not r.ok:
                    raise RuntimeError('PRINT USING driver rejected: ' + r.brief())
                mods[key] = (src, impl.load(r.binary))
            src, mod = mods[key]
            bad, out = judge_using(mod, fmt)
            st['evaluations'] += 1
            st['using_cases'] += 1
            st['runs'] += 2
            st['ticks'] += out.ticks * 2
            st['outcomes'].add(('using', vname, arming, obs_of(out)))
            if out.end == 'trap' or 'after' in printed(out.events):
                st['nontrivial'] += 1
            for div, obs in bad:
                groups.setdefault((div, obs), []).append((o, g, src, describe(out)))
        for (div, obs), lst in groups.items():
            cs = [(o, g) for o, g, _, _ in lst]
            o, g, src, desc = lst[0]
            feat = {'family': 'using', 'divergence': div, 'observed': obs,
                    'values': vname, 'demand': cat.using_demand(fmt, vname), 'arming': arming,
                    'debug': _debug_class(cs), 'opt': _opt_class(cs)}
            viol.append((feat, {'family': 'using', 'src': src, 'opt': o, 'dbg': g,
                                'arming': arming, 'format': fmt, 'values': vname,
                                'configs': [cfg_name(*c) for c in cs]},
                         'no host exception; the PRINT USING statement prints or traps',
                         desc, len(fmt) * 100 + len(src) // 10))
    return viol, st


# ---------------------------------------------------------------------------
# family devices

def plan_json(plan):
    return [[i, d if isinstance(d, str) else ['value', d[1], repr(d[2])]] for i, d in sorted(plan.items())]


def plan_from_json(lst):
    plan = {}
    for i, d in lst:
        if isinstance(d, str):
            plan[int(i)] = d
        else:
            v = d[2]
            plan[int(i)] = ('value', d[1], eval(v, {'inf': denv.INF, 'nan': denv.NAN}))
    return plan


def judge_device(module, arming, inp, plan):
    o1, o2, diff, e1, e2 = run_twice(module, lambda: denv.DevEnv(plan, inp=inp))
    bad = []
    for o in (o1, o2):
        if o is None:
            continue
        if o.end == 'hostexc':
            bad.append(('host-exception', obs_of(o)))
        elif o.end == 'stuck':
            bad.append(('input-never-accepted', obs_of(o)))
        elif o.end not in DEFINED_ENDS and o.end != 'horizon':
            bad.append(('undefined-halt', obs_of(o)))
    if diff and not bad:
        bad.append(('tick-vs-run', diff))
    if not bad and arming == 'none':
        hard = [f for f in e1.fired if f[2] in ('fail', 'missing')]
        if hard:
            f = hard[0]
            if o1.end != 'trap' or o1.trap != cat.DEV:
                bad.append(('failing-device-not-DEVICE_ERROR', obs_of(o1)))
            elif len(e1.events) != f[3] or e1.n != f[0] + 1:
                bad.append(('device-used-after-failure', obs_of(o1)))
        elif not e1.fired:
            if o1.end not in ('halt', 'eoc') or 'after' not in printed(e1.events):
                bad.append(('spurious-error', obs_of(o1)))
    if not bad and arming == 'goto0':
        # the handler gives up with ON ERROR GOTO 0: a device failure (in the
        # program, or of the handler's own PRINT) ends the run as DEVICE_ERROR
        if any(f[2] in ('fail', 'missing') for f in e1.fired):
            if o1.end != 'trap' or o1.trap != cat.DEV:
                bad.append(('failing-device-not-DEVICE_ERROR', obs_of(o1)))
        elif not e1.fired:
            if o1.end not in ('halt', 'eoc') or 'after' not in printed(e1.events):
                bad.append(('spurious-error', obs_of(o1)))
    seen = []
    for b in bad:
        if b not in seen:
            seen.append(b)
    return seen, o1, e1


def devices_chunk(chunk, bound, nonfinite):
    impl.parse_cache(True)
    viol = []
    st = {'evaluations': 0, 'runs': 0, 'ticks': 0, 'outcomes': set(), 'nontrivial': 0,
          'devices_cases': 0, 'device_calls': 0, 'deviations_fired': 0, 'plans_by_bound': {},
          'unreached_second': 0}
    for prog, arming, o, g in chunk:
        src = cat.device_source(prog, arming)
        r = impl.compile_text(src, o, g, limit=COMPILE_LIMIT, want_listing=False)
        if not r.ok:
            raise RuntimeError(f'device program {prog["name"]} rejected: ' + r.brief())
        mod = impl.load(r.binary)

        def one(plan):
            bad, out, env = judge_device(mod, arming, prog['inp'], plan)
            st['evaluations'] += 1
            st['devices_cases'] += 1
            st['runs'] += 2
            st['ticks'] += out.ticks * 2
            k = str(len(plan))
            st['plans_by_bound'][k] = st['plans_by_bound'].get(k, 0) + 1
            st['deviations_fired'] += len(env.fired)
            tags = '+'.join(f[2] for f in env.fired) or 'none'
            st['outcomes'].add(('devices', arming, tags, obs_of(out)))
            if env.fired:
                st['nontrivial'] += 1
            for div, obs in bad:
                devs = [(env.calls[i] if i < len(env.calls) else '?', denv.dev_tag(d))
                        for i, d in sorted(plan.items())]
                feat = {'family': 'devices', 'divergence': div, 'observed': obs,
                        'program': prog['name'],
                        'calls': '+'.join(c for c, _ in devs) or 'none',
                        'deviations': '+'.join(t for _, t in devs) or 'none',
                        'arming': arming, 'debug': 'g' if g else 'nog', 'opt': f'O{o}'}
                viol.append((feat, {'family': 'devices', 'src': src, 'opt': o, 'dbg': g,
                                    'arming': arming, 'inp': prog['inp'],
                                    'plan': plan_json(plan)},
                             'no host exception; a failing device call ends in DEVICE_ERROR '
                             '(no handler armed) with no further device use; tick-by-tick and run() agree',
                             dict(describe(out), fired=impl.jsonable(env.fired)),
                             len(plan) * 10000 + len(src)))
            return env

        base = one({})
        st['device_calls'] += base.n
        if bound >= 1:
            for i, name in enumerate(base.calls):
                for d in denv.deviations_for(name, nonfinite):
                    e1 = one({i: d})
                    if bound >= 2:
                        calls1 = list(e1.calls)
                        if len(e1.fired) < 1:
                            continue
                        for j in range(i + 1, len(calls1)):
                            for d2 in denv.deviations_for(calls1[j], nonfinite):
                                e2 = one({i: d, j: d2})
                                if len(e2.fired) < 2:
                                    st['unreached_second'] += 1
    return viol, st


# ---------------------------------------------------------------------------
# family realdev

def judge_realdev(module):
    outs = []
    for how in ('tick', 'run'):
        out = impl.Outcome()
        with impl.quiet():
            m = impl.QvmMachine(module, terminal='dumb')
        cpu = m.cpu
        n = len(module.code)
        try:
            with impl.quiet():
                if how == 'tick':
                    while not cpu.halted and cpu.pc < n and out.ticks < HORIZON:
                        cpu.tick()
                        out.ticks += 1
                    if not cpu.halted and out.ticks >= HORIZON:
                        out.end = 'horizon'
                else:
                    with impl.time_limit(RUN_LIMIT):
                        m.run()
        except impl.Timeout:
            out.end = 'timeout'
        except KeyboardInterrupt:
            raise
        except BaseException as e:
            out.end = 'hostexc'
            out.exc = type(e).__name__
            out.where = impl._where(e.__traceback__)
        env = type('E', (), {'events': []})()
        outs.append(impl.finish_outcome(out, cpu, env, module))
    o1, o2 = outs
    bad = []
    for o in outs:
        if o.end == 'hostexc':
            bad.append(('host-exception', obs_of(o)))
        elif o.end not in DEFINED_ENDS:
            bad.append(('undefined-halt', obs_of(o)))
    if not bad and (o1.end, o1.trap) != (o2.end, o2.trap):
        bad.append(('tick-vs-run', f'outcome {obs_of(o1)} vs {obs_of(o2)}'))
    seen = []
    for b in bad:
        if b not in seen:
            seen.append(b)
    return seen, o1


def realdev_chunk(chunk):
    impl.parse_cache(True)
    viol = []
    st = {'evaluations': 0, 'runs': 0, 'ticks': 0, 'outcomes': set(), 'nontrivial': 0,
          'realdev_cases': 0, 'not_accepted': 0}
    old = os.getcwd()
    tmp = tempfile.mkdtemp(prefix='c07_realdev_')
    os.chdir(tmp)
    try:
        for case in chunk:
            src = cat.build_source(case, 'none')
            groups = {}
            for o, g in ((0, False), (2, True)):
                r = impl.compile_text(src, o, g, limit=COMPILE_LIMIT, want_listing=False)
                if not r.ok:
                    st['not_accepted'] += 1
                    continue
                mod = impl.load(r.binary)
                bad, out = judge_realdev(mod)
                st['evaluations'] += 1
                st['realdev_cases'] += 1
                st['runs'] += 2
                st['ticks'] += out.ticks * 2
                st['outcomes'].add(('realdev', case['construct'], obs_of(out)))
                if out.end == 'trap':
                    st['nontrivial'] += 1
                for div, obs in bad:
                    groups.setdefault((div, obs), []).append((o, g, describe(out)))
            for (div, obs), lst in groups.items():
                o, g, desc = lst[0]
                feat = {'family': 'realdev', 'divergence': div, 'observed': obs,
                        'construct': case['construct'], 'case': case['id'],
                        'opt': _opt_class([(a, b) for a, b, _ in lst])}
                viol.append((feat, {'family': 'realdev', 'src': src, 'opt': o, 'dbg': g},
                             'no host exception with the implementation\'s own dumb-terminal '
                             'peripherals; halted with a defined reason',
                             desc, len(src)))
    finally:
        os.chdir(old)
        shutil.rmtree(tmp, ignore_errors=True)
    return viol, st


REALDEV_SKIP = ('RND', 'RANDOMIZE')    # nothing device-specific beyond the scripted runs


# ---------------------------------------------------------------------------
# family interrupts (SX)

def snapshot(m, env):
    cpu = m.cpu
    return (cpu.pc, explore.Canon().value(cpu.stack), _stable(explore.memory_view(m)), repr(env.events))


def is_armed(cpu):
    return cpu.trap_target is not None


def judge_boundary(m, module, strict_expected=None, cont_horizon=3000):
    """m: machine stopped at an instruction boundary.  Forks it, delivers an
    interrupt request through the real signal handler, ticks once.
    -> (list of (divergence, observed), info dict)"""
    f = impl.fork_machine(m)
    cpu = f.cpu
    env = cpu.devices['terminal'].impl
    armed = is_armed(cpu)
    pre = snapshot(f, env)
    info = {'armed': armed, 'pc': cpu.pc, 'next_op': impl.op_at(module.code, cpu.pc)
            if cpu.pc < len(module.code) else None, 'cont_ticks': 0}
    bad = []
    try:
        with impl.quiet():
            cpu.signal_handler(signal.SIGINT, None)
            cpu.tick()
    except impl.Exhausted:
        bad.append(('executed-further', 'the interrupting tick consulted the input device'))
        return bad, info, f
    except (impl.Timeout, KeyboardInterrupt):
        raise
    except BaseException as e:
        bad.append(('host-exception', 'exc:' + type(e).__name__))
        info['where'] = impl._where(e.__traceback__)
        return bad, info, f
    if not armed:
        lt = getattr(cpu.last_trap, 'name', None)
        if lt != cat.KBD:
            bad.append(('not-keyboard-interrupt', f'last_trap={lt}'))
        elif not cpu.halted or getattr(cpu.halt_reason, 'name', None) != 'TRAP':
            bad.append(('not-halted-by-trap', f'halted={cpu.halted} reason={getattr(cpu.halt_reason, "name", None)}'))
        post = snapshot(f, env)
        if post != pre:
            what = [n for n, a, b in zip(('pc', 'stack', 'memory', 'device-trace'), pre, post) if a != b]
            bad.append(('executed-further', '+'.join(what) + ' changed'))
    else:
        # a handler is armed: totality only; run the fork on
        n = len(module.code)
        t = 0
        try:
            with impl.quiet():
                while not cpu.halted and cpu.pc < n and t < cont_horizon:
                    cpu.tick()
                    t += 1
        except impl.Exhausted:
            pass
        except (impl.Timeout, KeyboardInterrupt):
            raise
        except BaseException as e:
            bad.append(('host-exception', 'exc:' + type(e).__name__))
            info['where'] = impl._where(e.__traceback__)
        info['cont_ticks'] = t
        if not bad and cpu.halted and getattr(cpu.halt_reason, 'name', None) not in \
                ('TRAP', 'INSTRUCTION', 'END_OF_CODE'):
            bad.append(('undefined-halt', str(cpu.halt_reason)))
    return bad, info, f


def _kbd_stop(cpu, env, f, ref, armed, what):
    """after the machine was driven on with a pending interrupt request:
    no handler armed => stopped by the keyboard-interrupt trap in state `ref`"""
    if armed:
        if cpu.halted and getattr(cpu.halt_reason, 'name', None) not in \
                ('TRAP', 'INSTRUCTION', 'END_OF_CODE'):
            return [('undefined-halt', f'{what}: {cpu.halt_reason}')]
        return []
    lt = getattr(cpu.last_trap, 'name', None)
    if lt != cat.KBD:
        return [('interrupt-lost', f'{what}: last_trap={lt}')]
    if not cpu.halted or getattr(cpu.halt_reason, 'name', None) != 'TRAP':
        return [('not-halted-by-trap',
                 f'{what}: halted={cpu.halted} reason={getattr(cpu.halt_reason, "name", None)}')]
    post = snapshot(f, env)
    if post != ref:
        ch = [n for n, a, b in zip(('pc', 'stack', 'memory', 'device-trace'), ref, post) if a != b]
        return [('executed-further', f'{what}: ' + '+'.join(ch) + ' changed')]
    return []


def _guarded(fn, bad, info, what):
    """run fn(); host exceptions become violations -> True if fn completed"""
    try:
        with impl.quiet(), impl.time_limit(RUN_LIMIT):
            fn()
        return True
    except impl.Exhausted:
        bad.append(('executed-further', f'{what}: the input device was consulted'))
    except impl.Timeout:
        bad.append(('undefined-halt', f'{what}: run() did not end'))
    except KeyboardInterrupt:
        raise
    except BaseException as e:
        bad.append(('host-exception', f'{what}: exc:' + type(e).__name__))
        info['where'] = impl._where(e.__traceback__)
    return False


def judge_run_entry(m, module):
    """m at an instruction boundary (reached with tick()).  Fork, deliver the
    interrupt request, continue with the machine's own run() loop: the request
    is pending when run() is entered (k = 0: before the program starts)."""
    f = impl.fork_machine(m)
    cpu = f.cpu
    env = cpu.devices['terminal'].impl
    armed = is_armed(cpu)
    ref = snapshot(f, env)
    info = {'armed': armed, 'pc': cpu.pc, 'schedule': 'tick x k, interrupt, run()'}
    bad = []
    cpu.signal_handler(signal.SIGINT, None)
    if _guarded(cpu.run, bad, info, 'run() entered with a pending request'):
        bad.extend(_kbd_stop(cpu, env, f, ref, armed, 'run() entered with a pending request'))
    return bad, info


def judge_breakpoint_and_step(prev, module, p, ref, step):
    """prev: undisturbed fork one instruction before the boundary (pc p, state
    `ref`) under test.
    step False: a breakpoint predicate stops run() at the boundary, the request
                arrives while stopped, run() continues
    step True:  run(step_over=True) is in progress and the request arrives
                between the two instructions (delivered from a predicate that
                never stops the machine - breakpoint predicates are evaluated by
                run() exactly at the instruction boundaries)"""
    cpu = prev.cpu
    env = cpu.devices['terminal'].impl
    bad = []
    if not step:
        what = 'stopped at a breakpoint, request, run()'
        info = {'pc': p, 'schedule': what}
        bp = lambda c: c.pc == p
        cpu.add_breakpoint(bp)
        box = {}
        if not _guarded(lambda: box.setdefault('r', cpu.run()), bad, info, what):
            return bad, info
        cpu.del_breakpoint(bp)
        if box['r'] is not False or cpu.halted or snapshot(prev, env) != ref:
            # the harness expects the predicate to stop the run at the boundary
            bad.append(('harness-breakpoint-differs', f'run() to the breakpoint at {p} and tick() disagree'))
            return bad, info
        armed = is_armed(cpu)
        info['armed'] = armed
        cpu.signal_handler(signal.SIGINT, None)
        if _guarded(cpu.run, bad, info, what):
            bad.extend(_kbd_stop(cpu, env, prev, ref, armed, what))
        return bad, info
    what = 'request between two instructions of run(step_over=True)'
    info = {'pc': p, 'schedule': what}
    box = {}

    def hook(c):
        if 'done' not in box:
            box['done'] = True
            box['armed'] = is_armed(c)
            box['at'] = c.pc
            c.signal_handler(signal.SIGINT, None)
        return False
    cpu.add_breakpoint(hook)
    if _guarded(lambda: cpu.run(step_over=True), bad, info, what):
        if box.get('at') != p:
            bad.append(('harness-breakpoint-differs', f'predicate first evaluated at {box.get("at")}, not {p}'))
        else:
            info['armed'] = box['armed']
            bad.extend(_kbd_stop(cpu, env, prev, ref, box['armed'], what))
    return bad, info


def run_to_boundary(module, inputs, k):
    env = impl.Env({'input': list(inputs)})
    m = impl.new_machine(module, env)
    with impl.quiet():
        for _ in range(k):
            m.cpu.tick()
    return m


def interrupts_item(src, inputs, o, g, variants=True):
    """all boundaries of one run -> (bad list [(k, div, obs, info)], counters)"""
    r = impl.compile_text(src, o, g, limit=COMPILE_LIMIT, want_listing=False)
    if not r.ok:
        raise RuntimeError('interrupt program rejected: ' + r.brief() + '\n' + src)
    mod = impl.load(r.binary)
    env = impl.Env({'input': list(inputs)})
    m = impl.new_machine(mod, env)
    cpu = m.cpu
    n = len(mod.code)
    states = set()
    cnt = {'boundaries': 0, 'strict': 0, 'armed': 0, 'fork_checked': 0, 'ticks': 0,
           'cont_ticks': 0, 'master_end': None, 'hostexc_master': None,
           'run_entry': 0, 'breakpoint': 0, 'step_over': 0}
    bad = []
    k = 0
    while not cpu.halted and cpu.pc < n and k < 1500:
        cnt['boundaries'] += 1
        states.add(hash(canon_machine(m)))
        b, info, f = judge_boundary(m, mod)
        cnt['armed' if info['armed'] else 'strict'] += 1
        cnt['cont_ticks'] += info['cont_ticks']
        states.add(hash(canon_machine(f)))
        for div, obs in b:
            bad.append((k, div, obs, info))
        # the same request, pending when the machine's own run() loop is entered
        b, info_r = judge_run_entry(m, mod)
        cnt['run_entry'] += 1
        for div, obs in b:
            bad.append((k, div, obs, dict(info_r, variant='run-entry')))
        prevs = [impl.fork_machine(m) for _ in range(2)] if variants else []
        # fork fidelity: an undisturbed fork ticks to the same state as the master
        f2 = impl.fork_machine(m)
        try:
            with impl.quiet():
                f2.cpu.tick()
                cpu.tick()
        except (impl.Timeout, KeyboardInterrupt):
            raise
        except BaseException as e:
            cnt['hostexc_master'] = type(e).__name__
            info = dict(info, where=impl._where(e.__traceback__))
            bad.append((k, 'host-exception-uninterrupted', 'exc:' + type(e).__name__, info))
            break
        if canon_machine(f2) != canon_machine(m) or \
                f2.cpu.devices['terminal'].impl.events != env.events:
            bad.append((k, 'harness-fork-differs', 'fork and master disagree after one tick', info))
        cnt['fork_checked'] += 1
        k += 1
        if variants and not cpu.halted and cpu.pc < n:
            # boundary k (just reached by the master): stop there with a breakpoint /
            # arrive there inside run(step_over=True); both start one instruction before
            ref = snapshot(m, env)
            for step, prev in zip((False, True), prevs):
                b, info_v = judge_breakpoint_and_step(prev, mod, cpu.pc, ref, step)
                cnt['step_over' if step else 'breakpoint'] += 1
                for div, obs in b:
                    bad.append((k, div, obs, dict(info_v, variant='step-over' if step else 'breakpoint',
                                                  armed=info_v.get('armed', False))))
    cnt['ticks'] = k
    cnt['master_end'] = ('hostexc' if cnt['hostexc_master'] else 'halted' if cpu.halted
                         else ('eoc' if cpu.pc >= n else 'long'))
    return mod, bad, cnt, len(states)


def interrupts_run_item(mod, inputs):
    """an interrupt request delivered *during* the j-th device call, for every j,
    run tick by tick and through run(); both must agree, and with no handler
    armed the next tick is the keyboard-interrupt trap with nothing executed"""
    inp = list(inputs) or ['0']
    base = denv.DevEnv({}, inp=inp)
    ob, mb = denv.run_ticks(mod, base, 3000)
    bad = []
    runs = 0
    for j in range(base.n):
        res = []
        for how in ('tick', 'run'):
            box = {}

            def hook(env, idx, name, box=box, j=j):
                if idx == j and 'done' not in box:
                    box['done'] = True
                    box['armed'] = is_armed(env.machine.cpu)
                    env.machine.cpu.signal_handler(signal.SIGINT, None)
            env = denv.DevEnv({}, inp=inp, on_call=hook)
            if how == 'tick':
                state = {}

                def after(cpu, env=env, box=box, state=state):
                    if 'done' in box and 'pre' not in state and not cpu.halted:
                        state['pre'] = (cpu.pc, explore.Canon().value(cpu.stack), repr(env.events))
                        state['armed'] = is_armed(cpu)
                    elif 'pre' in state and 'post' not in state:
                        state['post'] = (cpu.pc, explore.Canon().value(cpu.stack), repr(env.events))
                        state['trap'] = getattr(cpu.last_trap, 'name', None)
                        state['halted'] = cpu.halted
                o_, m_ = denv.run_ticks(mod, env, 3000, after_tick=after)
                if 'pre' in state and 'post' in state and not state['armed']:
                    if state['trap'] != cat.KBD or not state['halted']:
                        bad.append((j, 'not-keyboard-interrupt', f'last_trap={state["trap"]}', base.calls[j]))
                    elif state['pre'] != state['post']:
                        bad.append((j, 'executed-further', 'state changed in the interrupting tick', base.calls[j]))
            else:
                try:
                    with impl.time_limit(RUN_LIMIT):
                        o_, m_ = denv.run_loop(mod, env)
                except impl.Timeout:
                    bad.append((j, 'undefined-halt', 'run() did not end', base.calls[j]))
                    continue
            runs += 1
            if o_.end == 'hostexc':
                bad.append((j, 'host-exception', obs_of(o_), base.calls[j]))
            res.append((o_, m_, env))
        if len(res) == 2:
            (o1, m1, e1), (o2, m2, e2) = res
            d = compare_runs(o1, m1, e1.events, o2, m2, e2.events)
            if d and o1.end != 'hostexc' and o2.end != 'hostexc':
                bad.append((j, 'tick-vs-run', d, base.calls[j]))
    return bad, runs, base.n


def interrupts_chunk(chunk):
    impl.parse_cache(True)
    viol = []
    st = {'evaluations': 0, 'runs': 0, 'ticks': 0, 'outcomes': set(), 'nontrivial': 0,
          'interrupts_cases': 0, 'states': 0, 'transitions': 0, 'boundaries': 0,
          'boundaries_strict': 0, 'boundaries_armed': 0, 'fork_fidelity_checks': 0,
          'device_call_interrupts': 0, 'master_hostexc': 0,
          'run_entry_schedules': 0, 'breakpoint_schedules': 0, 'step_over_schedules': 0}
    for prog, arming, o, g in chunk:
        src = cat.arm_source(prog['src'], arming)
        # the handler mode in effect: the prefix, else the program's own
        mode = arming if arming != 'none' else (prog['armed'] or 'none')
        mod, bad, cnt, nstates = interrupts_item(src, prog['inputs'], o, g)
        st['interrupts_cases'] += 1
        st['evaluations'] += cnt['boundaries']
        st['boundaries'] += cnt['boundaries']
        st['boundaries_strict'] += cnt['strict']
        st['boundaries_armed'] += cnt['armed']
        st['nontrivial'] += cnt['boundaries']
        st['fork_fidelity_checks'] += cnt['fork_checked']
        st['states'] += nstates
        st['transitions'] += cnt['ticks'] + cnt['boundaries'] + cnt['fork_checked'] + cnt['cont_ticks']
        st['ticks'] += cnt['ticks'] + cnt['boundaries'] + cnt['fork_checked'] + cnt['cont_ticks']
        st['runs'] += 1 + cnt['boundaries']
        extra = cnt['run_entry'] + cnt['breakpoint'] + cnt['step_over']
        st['run_entry_schedules'] += cnt['run_entry']
        st['breakpoint_schedules'] += cnt['breakpoint']
        st['step_over_schedules'] += cnt['step_over']
        st['evaluations'] += extra
        st['nontrivial'] += extra
        st['runs'] += extra
        st['outcomes'].add(('interrupts', prog['name'], arming, cnt['master_end']))
        if cnt['hostexc_master']:
            st['master_hostexc'] += 1
        if cnt['master_end'] == 'long':
            raise RuntimeError(f'interrupt program {prog["name"]} exceeds 1500 ticks')
        for k, div, obs, info in bad:
            feat = {'family': 'interrupts', 'divergence': div, 'observed': obs,
                    'program': prog['name'], 'arming': mode, 'prefix': arming,
                    'handler_armed': bool(info.get('armed')),
                    'schedule': info.get('variant', 'tick'),
                    'debug': 'g' if g else 'nog', 'opt': f'O{o}'}
            viol.append((feat, {'family': 'interrupts', 'src': src, 'opt': o, 'dbg': g,
                                'inputs': prog['inputs'], 'boundary': k, 'arming': arming,
                                'schedule': info.get('variant', 'tick')},
                         'last_trap KEYBOARD_INTERRUPT, halted by TRAP, pc/stack/memory/device '
                         'trace unchanged (no handler armed); no host exception (armed)',
                         impl.jsonable(info), k * 10 + len(src)))
        bad2, runs2, ncalls = interrupts_run_item(mod, prog['inputs'])
        st['runs'] += runs2
        st['evaluations'] += ncalls
        st['device_call_interrupts'] += ncalls
        for j, div, obs, call in bad2:
            feat = {'family': 'interrupts', 'divergence': div, 'observed': obs,
                    'program': prog['name'], 'arming': mode, 'prefix': arming, 'during_call': call,
                    'debug': 'g' if g else 'nog', 'opt': f'O{o}'}
            viol.append((feat, {'family': 'interrupts', 'src': src, 'opt': o, 'dbg': g,
                                'inputs': prog['inputs'], 'during_call_index': j,
                                'arming': arming},
                         'interrupt delivered during a device call: the call completes, the next '
                         'tick is the KEYBOARD_INTERRUPT trap; tick-by-tick and run() agree',
                         {'call': call}, j * 10 + len(src)))
    return viol, st


# ---------------------------------------------------------------------------

def run(chk):
    tier = chk.tier
    quick = tier == 'quick'
    only = chk.only
    fams = {}

    def want(name):
        if only and name not in only:
            chk.cov['exhaustive'] = False
            return False
        return True

    # (a) errors
    if want('errors'):
        cases = cat.error_cases(tier)
        items = []
        for c in cases:
            for i, (ctx, site) in enumerate(cat.variants(c, tier)):
                # the further handler shapes: quick - first variant of every case
                # with a cause; thorough - every variant at module level or in a SUB
                if quick:
                    extra = cat.HANDLER_MODES if (i == 0 and c['cause'] != 'none') else []
                else:
                    extra = cat.HANDLER_MODES if site in ('main', 'sub') else []
                items.append((c, ctx, site, tuple(extra)))
        fams['errors'] = {
            'cause_cases': len(cases), 'programs': len(items) * 3,
            'arming_modes': cat.ARMINGS, 'configs': [cfg_name(*c) for c in CFG4],
            'handler_modes': {'modes': cat.HANDLER_MODES,
                              'programs': sum(len(it[3]) for it in items),
                              'on': 'first variant of every case with a cause' if quick
                                    else 'every variant at module level or in a SUB',
                              'configs': [cfg_name(*c) for c in (CFG2 if quick else CFG4)]},
            'by_cause': _count(c['cause'] for c in cases),
            'contexts': cat.CONTEXTS_N, 'sites': cat.SITES if not quick else ['main', 'sub', 'function', 'for'],
            'executions_per_program': 'tick-by-tick + run()'}
        for viol, st in chk.pmap(errors_chunk, items, extra=(tier,), chunk=12):
            chk.add_violations(viol)
            chk.merge_stats(st)
        for it in (items[0], items[len(items) // 3], items[-1]):
            chk.sample({'family': 'errors', 'case': it[0]['id'],
                        'src': cat.build_source(it[0], 'goto', it[1], it[2])})
    # PRINT USING
    if want('using'):
        formats, alpha, nmax = cat.using_formats(tier)
        vnames = [v[0] for v in cat.USING_VALUES]
        ucfgs = [(0, False), (2, True)] if quick else CFG4
        items = []
        for v in vnames:
            for arming in (['none'] if quick else cat.ARMINGS):
                for f in formats:
                    items.append((v, arming, f))
        fams['using'] = {'alphabet': alpha, 'max_len': nmax, 'formats': len(formats),
                         'value_lists': vnames, 'configs': [cfg_name(*c) for c in ucfgs],
                         'arming_modes': ['none'] if quick else cat.ARMINGS,
                         'cases': len(items)}
        for viol, st in chk.pmap(using_chunk, items, extra=(ucfgs,), chunk=400):
            chk.add_violations(viol)
            chk.merge_stats(st)
        chk.sample({'family': 'using', 'format': formats[len(formats) // 2],
                    'src': cat.using_source(vnames[0], 'none')})
    # (b) devices
    if want('devices'):
        progs = cat.device_programs()
        bound = 1 if quick else 2
        items = []
        dev_armings = cat.ARMINGS + (['goto0'] if quick else cat.HANDLER_MODES)
        for p in progs:
            for arming in dev_armings:
                for o, g in CFG4:
                    items.append((p, arming, o, g))
        fams['devices'] = {'programs': len(progs), 'deviation_bound': bound,
                           'deviations': ['fail (DeviceError)', 'missing method', 'boundary value'],
                           'boundary_values': {k: [t for t, _ in v] for k, v in denv.BOUNDARY.items()},
                           'arming_modes': dev_armings, 'configs': [cfg_name(*c) for c in CFG4]}
        for viol, st in chk.pmap(devices_chunk, items, extra=(bound, True), chunk=1 if not quick else 4):
            chk.add_violations(viol)
            chk.merge_stats(st)
        chk.sample({'family': 'devices', 'program': progs[3]['name'],
                    'src': cat.device_source(progs[3], 'next'), 'plan': [[1, 'fail']]})
    # realdev
    if want('realdev'):
        cases = [c for c in cat.outside_cases(tier)
                 if (quick and c['tier'] == 'q' or not quick) and c['construct'] not in REALDEV_SKIP]
        fams['realdev'] = {'programs': len(cases), 'configs': ['O0', 'O2g'],
                           'peripherals': "QvmMachine(module, terminal='dumb')"}
        for viol, st in chk.pmap(realdev_chunk, cases, chunk=40):
            chk.add_violations(viol)
            chk.merge_stats(st)
    # (c) interrupts
    if want('interrupts'):
        progs = cat.interrupt_programs()
        items = []
        for p in progs:
            armings = ['none']
            if not p['armed'] and not quick:
                armings = ['none', 'goto', 'next']
            for arming in armings:
                for o, g in (CFG4 if quick else impl.CONFIGS):
                    items.append((p, arming, o, g))
        fams['interrupts'] = {'programs': len(progs), 'runs': len(items),
                              'boundaries': 'every instruction boundary of every run',
                              'configs': [cfg_name(*c) for c in (CFG4 if quick else impl.CONFIGS)],
                              'arming_variants': 'own' if quick else 'own + ON ERROR GOTO / RESUME NEXT prefix',
                              'also': 'interrupt delivered during every device call, tick-by-tick and run()'}
        for viol, st in chk.pmap(interrupts_chunk, items, chunk=1):
            chk.add_violations(viol)
            chk.merge_stats(st)
        chk.sample({'family': 'interrupts', 'program': progs[5]['name'], 'src': progs[5]['src'],
                    'schedule': 'interrupt at boundary k for every k'})

    cov = chk.cov
    if os.environ.get('C07_DUMP'):      # development aid: every violation, one JSON per line
        import json
        with open(os.environ['C07_DUMP'], 'w') as fh:
            for feat, case, exp, obs, size in chk.violations:
                fh.write(json.dumps({'f': feat, 'c': case, 'o': obs, 's': size}, default=str) + '\n')
    nout = len(cov.get('_sets', {}).get('outcomes', ()))
    cov['distinct_nontrivial'] = int(cov.get('nontrivial', 0))
    # model-checking keys: states/transitions of the explored runs
    cov['transitions'] = int(cov.get('ticks', 0))
    cov['states'] = int(cov.get('states', 0)) + int(cov.get('runs', 0))
    cov['traces_validated_against_impl'] = int(cov.get('runs', 0))
    chk.assumptions = [
        'programs, values, deviation bounds and schedules are bounded as listed per family',
        'the expected error class of a catalogue case is known by construction (REFSEM section 9)',
        'fork = copy.deepcopy of the machine (checked at every boundary against the master run)',
        'per-line parse memo is byte-identical to re-parsing',
    ]
    chk.finish(
        rule=('every catalogue program is compiled by the real compiler and executed on the real VM '
              'twice (tick by tick and through run()); non-trivial = the run reported an error, '
              'entered a handler, had a device deviation fire, or (interrupts) is one interrupted '
              'boundary; states = distinct canonical machine states at interrupt boundaries + final '
              'states of complete runs; transitions = VM ticks executed; distinct_outcomes = distinct '
              '(cause/family, arming, debug, outcome) classes'),
        extra_cov={'families': fams, 'distinct_outcomes': nout})


def _count(it):
    d = {}
    for x in it:
        d[x] = d.get(x, 0) + 1
    return d


# ---------------------------------------------------------------------------

def replay(rec):
    case = rec['case']
    fam = case['family']
    src = case['src']
    o, g = case['opt'], case['dbg']
    print(f'--- family {fam}  O{o} {"-g" if g else "no -g"}  arming={case.get("arming")} ---')
    print(src)
    r = impl.compile_text(src, o, g, limit=COMPILE_LIMIT, want_listing=False)
    if not r.ok:
        print('compile:', r.brief())
        return 0
    mod = impl.load(r.binary)
    if fam == 'errors':
        exp = case['expect']
        exp = (exp[0], tuple(exp[1])) if len(exp) > 1 else (exp[0],)
        bad, out = judge_error(mod, case['arming'], exp)
        print('expected:', expect_text(exp, case['arming']))
        print('observed:', describe(out))
    elif fam == 'using':
        print('format string:', repr(case['format']))
        bad, out = judge_using(mod, case['format'])
        print('observed:', describe(out))
    elif fam == 'devices':
        plan = plan_from_json(case['plan'])
        print('deviation plan (call index -> deviation):', case['plan'])
        bad, out, env = judge_device(mod, case['arming'], case['inp'], plan)
        print('calls:', env.calls)
        print('fired:', env.fired)
        print('observed:', describe(out))
    elif fam == 'realdev':
        old = os.getcwd()
        tmp = tempfile.mkdtemp(prefix='c07_realdev_')
        os.chdir(tmp)
        try:
            bad, out = judge_realdev(mod)
        finally:
            os.chdir(old)
            shutil.rmtree(tmp, ignore_errors=True)
        print('observed:', describe(out))
    elif fam == 'interrupts':
        if 'boundary' in case and case.get('schedule', 'tick') != 'tick':
            k = case['boundary']
            print(f'interrupt request at instruction boundary {k}, schedule: {case["schedule"]}')
            _, bad_all, cnt, _ = interrupts_item(src, case['inputs'], o, g)
            bad = [(d, ob) for kk, d, ob, info in bad_all
                   if kk == k and info.get('variant', 'tick') == case['schedule']]
            for kk, d, ob, info in bad_all:
                if kk == k and info.get('variant', 'tick') == case['schedule']:
                    print('info:', info)
        elif 'boundary' in case:
            k = case['boundary']
            m = run_to_boundary(mod, case['inputs'], k)
            print(f'interrupt request at instruction boundary {k} (pc={m.cpu.pc}, '
                  f'next instruction {impl.op_at(mod.code, m.cpu.pc)})')
            bad, info, f = judge_boundary(m, mod)
            print('before:', {'pc': m.cpu.pc, 'stack': len(m.cpu.stack),
                              'trap_target': m.cpu.trap_target})
            print('after :', {'pc': f.cpu.pc, 'stack': len(f.cpu.stack), 'halted': f.cpu.halted,
                              'halt_reason': str(f.cpu.halt_reason), 'last_trap': str(f.cpu.last_trap)})
            print('info:', info)
        else:
            j = case['during_call_index']
            bad_all, runs, n = interrupts_run_item(mod, case['inputs'])
            bad = [(d, ob) for jj, d, ob, call in bad_all if jj == j]
            print(f'interrupt request during device call {j} of {n}')
    else:
        print('unknown family')
        return 0
    for b in bad:
        print('VIOLATES:', b)
    if not bad:
        print('no violation now')
    return 1 if bad else 0
