"""The block-shape family: bounded space of tagged QBASIC programs (C08, C11).

A program is a small tree of *shapes* (tuples, JSON-able); `render` turns it
into source text in one of three layouts and returns, for every source
statement, what the generator knows about it: its text span, its line, the
literal that is unique to it (the *tag*), and the clause it sits in.

Shapes
    ('P',)                         PRINT <tag>
    ('S',)                         PRINT "t<tag>"
    ('F',)                         y% = (x% + <tag>) * 20000      (overflows at run time)
    ('X',)                         EXIT DO
    ('ifb', conds, bodies, else)   block IF; conds = kinds for IF and each ELSEIF,
                                   bodies = 1 + n_elseif + else bodies
    ('if1', cond, then, else_)     one-line IF; else_ = None | [] | [stmts]
    ('sel', cases, bodies, else)   SELECT CASE <tag>; cases = 'eq' (not taken) | 'lt' (taken)
    ('for', kind, body)            kind f0 (no iteration) | f1 (one) | fs (one, with STEP)
    ('while', cond, body)
    ('do', form, cond, body)       form plain | do_while | do_until | loop_while | loop_until
    ('call', style, body)          CALL sN / sN ; SUB sN <body> END SUB appended
    ('func', setret, body)         y% = fN% + <tag> ; FUNCTION fN% <body> [fN% = <tag>] END FUNCTION
    ('L', name) ('G', name) ('GS', name) ('R', name|None) ('END',)
    ('OE', name|'next'|'0') ('RS', ''|'next')
A body is a list of shapes.

Condition kinds (T = the header's tag; x% is never assigned, so it is 0):
    vf  x% = T      false        vt  x% <> T     true
    ct  T           const true   cf  T - T       const false
    c0  0           c1  1        cm1 -1          (untagged constants)
    tm  TIMER < T   true for the first two TIMER calls of a run, then false
    tmu TIMER >= T  false twice, then true
The script answers TIMER with 0, 0, 99999, 99999, ... so every loop ends.

Layouts: 'nl' one statement per line; 'colon' everything joined with ': '
where the grammar allows; 'clause' every block clause starts a line and the
simple statements of its body follow it on the same line.
"""
import itertools

TIMER_SCRIPT = [0.0, 0.0] + [99999.0] * 62
SCRIPT = {'timer': TIMER_SCRIPT}
ON_EMPTY = {'timer': 'raise'}

STYLES = ('nl', 'colon', 'clause')

_COND = {
    'vf': 'x% = {t}', 'vt': 'x% <> {t}', 'ct': '{t}', 'cf': '{t} - {t}',
    'c0': '0', 'c1': '1', 'cm1': '-1', 'tm': 'TIMER < {t}', 'tmu': 'TIMER >= {t}',
}
_UNTAGGED = ('c0', 'c1', 'cm1')
COND_TRUE = {'vf': False, 'vt': True, 'ct': True, 'cf': False, 'c0': False,
             'c1': True, 'cm1': True}


class Prog:
    __slots__ = ('src', 'stmts', 'shape', 'style', 'feat')

    def __init__(self, src, stmts, shape, style, feat):
        self.src = src
        self.stmts = stmts      # list of dicts, see _R.atom
        self.shape = shape
        self.style = style
        self.feat = feat        # input-side description used in violation features

    def case(self):
        return {'src': self.src, 'stmts': self.stmts, 'shape': self.shape,
                'style': self.style, 'feat': self.feat}


class _R:
    """renderer: walks the shape tree, allocates tags, lays out the text"""

    def __init__(self, style):
        self.style = style
        self.chunks = []
        self.pos = 0
        self.line = 1
        self.stmts = []
        self.nsimple = 100
        self.nhdr = 7000
        self.nsub = 0
        self.nfunc = 0
        self.defs = []          # deferred SUB / FUNCTION definitions
        self.first = True
        self.force_nl = False
        self.glue = None        # separator forced by a label

    # -- text
    def put(self, text):
        self.chunks.append(text)
        self.pos += len(text)
        self.line += text.count('\n')

    def simple_tag(self):
        self.nsimple += 1
        return self.nsimple

    def hdr_tag(self):
        self.nhdr += 1
        return self.nhdr

    def atom(self, kind, text, tag, parent, blk=None, simple=False, depth=0,
             own_line=False, nl_after=False, open_span=False):
        """write one statement; returns its id"""
        if not self.first:
            if self.glue is not None:
                sep = self.glue
            elif self.force_nl or own_line or self.style == 'nl':
                sep = '\n'
            elif self.style == 'colon':
                sep = ': '
            else:   # clause
                sep = ': ' if (simple and depth > 0) else '\n'
            self.put(sep)
        self.first = False
        self.glue = None
        self.force_nl = nl_after
        sid = len(self.stmts)
        st = {'id': sid, 'kind': kind, 'tag': tag, 'line': self.line,
              'start': self.pos, 'end': None, 'parent': parent, 'blk': blk,
              'text': text}
        self.stmts.append(st)
        self.put(text)
        if not open_span:
            st['end'] = self.pos
        return sid

    def cond(self, kind):
        if kind in _UNTAGGED:
            return _COND[kind], None
        t = self.hdr_tag()
        return _COND[kind].format(t=t), t

    # -- shapes
    def body(self, nodes, parent, depth):
        for n in nodes:
            self.node(n, parent, depth)

    def inline(self, nodes, parent):
        """statements of a one-line IF branch: 's1: s2'"""
        for i, n in enumerate(nodes):
            if i:
                self.put(': ')
            self.first = True
            self.node(n, parent, 1)
        self.first = False

    def node(self, n, parent, depth):
        k = n[0]
        A = self.atom
        if k == 'P':
            t = self.simple_tag()
            A('print', f'PRINT {t}', t, parent, simple=True, depth=depth)
        elif k == 'S':
            t = self.simple_tag()
            A('prints', f'PRINT "t{t}"', t, parent, simple=True, depth=depth)
        elif k == 'F':
            t = self.simple_tag()
            A('fail', f'y% = (x% + {t}) * 20000', t, parent, simple=True, depth=depth)
        elif k == 'X':
            A('exitdo', 'EXIT DO', None, parent, simple=True, depth=depth)
        elif k == 'END':
            A('end', 'END', None, parent, simple=True, depth=depth)
        elif k == 'G':
            A('goto', f'GOTO {n[1]}', None, parent, simple=True, depth=depth)
        elif k == 'GS':
            A('gosub', f'GOSUB {n[1]}', None, parent, simple=True, depth=depth)
        elif k == 'R':
            A('return', 'RETURN' + (f' {n[1]}' if n[1] else ''), None, parent,
              simple=True, depth=depth)
        elif k == 'OE':
            txt = {'next': 'ON ERROR RESUME NEXT', '0': 'ON ERROR GOTO 0'}.get(
                n[1], f'ON ERROR GOTO {n[1]}')
            A('onerror', txt, None, parent, simple=True, depth=depth)
        elif k == 'RS':
            A('resume', 'RESUME' + (' NEXT' if n[1] == 'next' else ''), None,
              parent, simple=True, depth=depth)
        elif k == 'L':
            # a label starts a line and is glued to the next statement
            if not self.first:
                self.put('\n')
            self.put(f'{n[1]}:')
            self.first = False
            self.force_nl = False
            self.glue = '\n' if self.style == 'nl' else ' '
        elif k == 'ifb':
            _, conds, bodies, has_else = n
            c, t = self.cond(conds[0])
            h = A('if', f'IF {c} THEN', t, parent, depth=depth)
            self.body(bodies[0], h, depth + 1)
            for i, ck in enumerate(conds[1:], 1):
                c, t = self.cond(ck)
                e = A('elseif', f'ELSEIF {c} THEN', t, parent, blk=h, depth=depth)
                self.body(bodies[i], e, depth + 1)
            if has_else:
                e = A('else', 'ELSE', None, parent, blk=h, depth=depth)
                self.body(bodies[len(conds)], e, depth + 1)
            A('endif', 'END IF', None, parent, blk=h, depth=depth)
        elif k == 'if1':
            _, ck, then, else_ = n
            c, t = self.cond(ck)
            h = A('if1', f'IF {c} THEN ', t, parent, simple=True, depth=depth,
                  nl_after=True, open_span=True)
            self.inline(then, h)
            if else_ is not None:
                self.put(' ELSE')
                if else_:
                    self.put(' ')
                    self.inline(else_, h)
            self.stmts[h]['end'] = self.pos
            self.stmts[h]['text'] = ''.join(self.chunks)[self.stmts[h]['start']:self.pos]
            self.force_nl = True
        elif k == 'sel':
            _, cases, bodies, has_else = n
            t = self.hdr_tag()
            h = A('select', f'SELECT CASE {t}', t, parent, depth=depth)
            for i, ck in enumerate(cases):
                t = self.hdr_tag()
                txt = f'CASE {t}' if ck == 'eq' else f'CASE IS < {t}'
                e = A('case', txt, t, parent, blk=h, depth=depth)
                self.body(bodies[i], e, depth + 1)
            if has_else:
                e = A('caseelse', 'CASE ELSE', None, parent, blk=h, depth=depth)
                self.body(bodies[len(cases)], e, depth + 1)
            A('endselect', 'END SELECT', None, parent, blk=h, depth=depth)
        elif k == 'for':
            _, fk, body = n
            t = self.hdr_tag()
            v = f'i{depth + 1}%'
            txt = {'f0': f'FOR {v} = {t} TO 0', 'f1': f'FOR {v} = {t} TO {t}',
                   'fs': f'FOR {v} = {t} TO {t} STEP 1'}[fk]
            h = A('for', txt, t, parent, depth=depth)
            self.body(body, h, depth + 1)
            A('next', 'NEXT', None, parent, blk=h, depth=depth)
        elif k == 'while':
            _, ck, body = n
            c, t = self.cond(ck)
            h = A('while', f'WHILE {c}', t, parent, depth=depth)
            self.body(body, h, depth + 1)
            A('wend', 'WEND', None, parent, blk=h, depth=depth)
        elif k == 'do':
            _, form, ck, body = n
            if form == 'do_while' or form == 'do_until':
                c, t = self.cond(ck)
                w = 'WHILE' if form == 'do_while' else 'UNTIL'
                h = A('do', f'DO {w} {c}', t, parent, depth=depth)
            else:
                h = A('do', 'DO', None, parent, depth=depth)
            self.body(body, h, depth + 1)
            if form == 'loop_while' or form == 'loop_until':
                c, t = self.cond(ck)
                w = 'WHILE' if form == 'loop_while' else 'UNTIL'
                A('loop', f'LOOP {w} {c}', t, parent, blk=h, depth=depth)
            else:
                A('loop', 'LOOP', None, parent, blk=h, depth=depth)
        elif k == 'call':
            _, style, body = n
            self.nsub += 1
            name = f's{self.nsub}'
            sid = A('call', f'CALL {name}' if style == 'call' else name, None,
                    parent, simple=True, depth=depth)
            self.defs.append(('sub', name, body, None, sid))
        elif k == 'func':
            _, setret, body = n
            self.nfunc += 1
            name = f'f{self.nfunc}%'
            t = self.simple_tag()
            sid = A('fcall', f'y% = {name} + {t}', t, parent, simple=True, depth=depth)
            self.defs.append(('function', name, body, setret, sid))
        else:
            raise ValueError(f'unknown shape {n!r}')

    def definitions(self):
        while self.defs:
            kind, name, body, setret, caller = self.defs.pop(0)
            kw = kind.upper()
            h = self.atom(kind, f'{kw} {name}', None, None, own_line=True)
            self.stmts[h]['caller'] = caller
            self.stmts[caller]['callee'] = h
            self.body(body, h, 1)
            if setret:
                t = self.simple_tag()
                self.atom('setret', f'{name} = {t}', t, h, simple=True, depth=1)
            self.atom('end' + kind, f'END {kw}', None, None, blk=h,
                      nl_after=True)


def render(items, style='nl', feat=None):
    r = _R(style)
    r.body(items, None, 0)
    r.definitions()
    r.put('\n')
    src = ''.join(r.chunks)
    return Prog(src, r.stmts, items, style, dict(feat or {}))


# ---------------------------------------------------------------------------
# helpers over the statement table

def ancestors(stmts, sid):
    """ids of the clauses / one-line IFs that contain statement sid"""
    out = []
    p = stmts[sid]['parent']
    while p is not None:
        out.append(p)
        p = stmts[p]['parent']
    return out


def stmt_by_tag(stmts):
    return {s['tag']: s for s in stmts if s['tag'] is not None}


def stmt_at(stmts, a, b):
    """the generator statement whose text span is exactly [a, b) once blanks
    are ignored; smallest enclosing one if none is exact; None"""
    best = None
    for s in stmts:
        if s['start'] == a and s['end'] == b:
            return s, True
        if s['start'] <= a and b <= s['end']:
            if best is None or s['end'] - s['start'] < best['end'] - best['start']:
                best = s
    return best, False


# ---------------------------------------------------------------------------
# the bounded spaces

E = []
P = [('P',)]
LEAF2 = (E, P)


def _bodies(k, leafs):
    return itertools.product(leafs, repeat=k)


def _name(b):
    return ''.join(x[0] for x in b) or 'E'


def ifb_shapes(leafs=LEAF2, sels='all', consts=True):
    """block IF: n ELSEIF in 0..2, optional ELSE, every body from leafs,
    branch selection: which condition is the first true one"""
    for n in (0, 1, 2):
        for e in (0, 1):
            k = 1 + n + e
            choices = list(range(n + 2))      # n+1 = none of the conditions
            if sels == 'edge':
                choices = sorted({0, n + 1})
            for sel in choices:
                variants = [['vt' if i == sel else 'vf' for i in range(n + 1)]]
                if consts:
                    v = list(variants[0])
                    v[0] = 'ct' if sel == 0 else 'cf'
                    variants.append(v)
                for conds in variants:
                    for bs in _bodies(k, leafs):
                        yield ('ifb', conds, [list(b) for b in bs], e), \
                            {'construct': 'ifb', 'elseif': n, 'else': e, 'sel': sel,
                             'cond': conds[0], 'bodies': '/'.join(_name(b) for b in bs)}


def if1_shapes(conds=('vf', 'vt', 'ct', 'cf')):
    PP = [('P',), ('P',)]
    for ck in conds:
        for then in (P, PP):
            for else_ in (None, [], P, PP):
                yield ('if1', ck, list(then), None if else_ is None else list(else_)), \
                    {'construct': 'if1', 'cond': ck, 'bodies': _name(then) + '/' + (
                        'none' if else_ is None else _name(else_))}


def sel_shapes(leafs=LEAF2, sels='all', maxcase=3):
    for n in range(0, maxcase + 1):
        for e in (0, 1):
            k = n + e
            choices = list(range(n + 1))      # n = no CASE matches
            if sels == 'edge':
                choices = sorted({0, n})
            for sel in choices:
                cases = ['lt' if i == sel else 'eq' for i in range(n)]
                for bs in _bodies(k, leafs):
                    yield ('sel', cases, [list(b) for b in bs], e), \
                        {'construct': 'sel', 'cases': n, 'else': e, 'sel': sel,
                         'bodies': '/'.join(_name(b) for b in bs) or '-'}


LOOP_CONDS = {
    'while': ('vf', 'cf', 'c0', 'tm'),
    'do_while': ('vf', 'cf', 'c0', 'tm'),
    'do_until': ('vt', 'cm1', 'tmu'),
    'loop_while': ('vf', 'cf', 'c0', 'tm'),
    'loop_until': ('vt', 'ct', 'c1', 'tmu'),
}


def loop_shapes(leafs=LEAF2, conds='all'):
    def pick(form):
        cs = LOOP_CONDS[form]
        return cs if conds == 'all' else (cs[0], cs[-1])
    for fk in ('f0', 'f1', 'fs') if conds == 'all' else ('f0', 'f1'):
        for b in leafs:
            yield ('for', fk, list(b)), {'construct': 'for', 'cond': fk, 'bodies': _name(b)}
    for ck in pick('while'):
        for b in leafs:
            yield ('while', ck, list(b)), {'construct': 'while', 'cond': ck, 'bodies': _name(b)}
    for b in ([('X',)], [('P',), ('X',)]):
        yield ('do', 'plain', None, list(b)), {'construct': 'do_plain', 'cond': '-', 'bodies': _name(b)}
    for form in ('do_while', 'do_until', 'loop_while', 'loop_until'):
        for ck in pick(form):
            for b in leafs:
                yield ('do', form, ck, list(b)), {'construct': form, 'cond': ck, 'bodies': _name(b)}


def routine_shapes(leafs=LEAF2):
    for style in ('call', 'bare'):
        for b in leafs:
            yield ('call', style, list(b)), {'construct': 'sub_' + style, 'bodies': _name(b)}
    for setret in (0, 1):
        for b in leafs:
            yield ('func', setret, list(b)), {'construct': 'function', 'setret': setret,
                                              'bodies': _name(b)}


def depth1(level):
    """constructs whose bodies are leaves.  level 'full' | 'inner' | 'small'"""
    if level == 'full':
        gens = [ifb_shapes(), if1_shapes(), sel_shapes(), loop_shapes(), routine_shapes()]
    elif level == 'inner':
        gens = [ifb_shapes(sels='edge', consts=False), if1_shapes(('vf', 'vt')),
                sel_shapes(sels='edge'), loop_shapes(conds='edge'), routine_shapes()]
    else:
        uni = None
        gens = [_uniform(ifb_shapes(sels='edge', consts=False)),
                if1_shapes(('vf', 'vt')),
                _uniform(sel_shapes(sels='edge')), loop_shapes(conds='edge'),
                routine_shapes()]
    for g in gens:
        yield from g


def _uniform(gen):
    """keep the shapes whose bodies are all empty or all PRINT"""
    for shape, f in gen:
        names = set(f['bodies'].split('/'))
        if len(names) <= 1:
            yield shape, f


def slots(shape):
    """(path, executes) for every body of a depth-1 construct: where a nested
    construct can be put.  `executes`: that body is reached at run time."""
    k = shape[0]
    if k == 'ifb':
        conds, bodies = shape[1], shape[2]
        taken = None
        for i, c in enumerate(conds):
            if COND_TRUE[c]:
                taken = i
                break
        if taken is None:
            taken = len(conds) if shape[3] else None
        return [(i, i == taken) for i in range(len(bodies))]
    if k == 'sel':
        cases, bodies = shape[1], shape[2]
        taken = cases.index('lt') if 'lt' in cases else (len(cases) if shape[3] else None)
        return [(i, i == taken) for i in range(len(bodies))]
    if k == 'if1':
        return []
    if k == 'for':
        return [(0, shape[1] != 'f0')]
    if k == 'while':
        return [(0, shape[1] == 'tm')]
    if k == 'do':
        form, ck = shape[1], shape[2]
        if form == 'plain':
            return []
        if form in ('loop_while', 'loop_until'):
            return [(0, True)]
        return [(0, ck in ('tm', 'tmu'))]
    if k in ('call', 'func'):
        return [(0, True)]
    return []


def with_body(shape, idx, body):
    k = shape[0]
    s = list(shape)
    if k in ('ifb', 'sel'):
        bs = [list(b) for b in shape[2]]
        bs[idx] = body
        s[2] = bs
    else:
        s[-1] = body
    return tuple(s)


def depth2(outer_level, inner_level, executed_only=True):
    """an outer construct with one body replaced by an inner construct, the
    other bodies ranging over the outer level's leaves"""
    inner = list(depth1(inner_level))
    for oshape, of in depth1(outer_level):
        if oshape[0] == 'if1':
            continue
        for idx, runs in slots(oshape):
            if executed_only and not runs:
                continue
            # the replaced body must have been the empty one, otherwise the
            # same program is produced twice
            cur = oshape[2][idx] if oshape[0] in ('ifb', 'sel') else oshape[-1]
            if cur:
                continue
            for ishape, inf in inner:
                if ishape[0] in ('call', 'func') and oshape[0] in ('call', 'func'):
                    # a call inside a routine body: allowed, keeps two routines
                    pass
                for pre in ((), (('P',),)) if outer_level == 'full' else ((),):
                    body = list(pre) + [ishape]
                    f = {'construct': of['construct'] + '>' + inf['construct'],
                         'outer': {k: v for k, v in of.items() if k != 'construct'},
                         'inner': {k: v for k, v in inf.items() if k != 'construct'},
                         'slot': idx, 'pre': len(pre)}
                    yield with_body(oshape, idx, body), f


def wrap(shape):
    """a program: sentinel PRINT, the construct, sentinel PRINT"""
    return [('P',), shape, ('P',)]


JUMPS = [
    ('goto-fwd', [('P',), ('G', 'l1'), ('P',), ('L', 'l1'), ('P',)]),
    ('goto-back', [('G', 'l2'), ('L', 'l1'), ('P',), ('END',), ('L', 'l2'), ('P',), ('G', 'l1')]),
    ('goto-in-if', [('ifb', ['vt'], [[('G', 'l1')]], 0), ('P',), ('L', 'l1'), ('P',)]),
    ('goto-if1', [('if1', 'vt', [('G', 'l1')], [('P',)]), ('P',), ('L', 'l1'), ('P',)]),
    ('goto-out-of-loop', [('for', 'f1', [('P',), ('G', 'l1'), ('P',)]), ('P',), ('L', 'l1'), ('P',)]),
    ('gosub', [('P',), ('GS', 'l1'), ('P',), ('END',), ('L', 'l1'), ('P',), ('R', None)]),
    ('gosub-twice', [('GS', 'l1'), ('GS', 'l1'), ('P',), ('END',), ('L', 'l1'), ('P',), ('R', None)]),
    ('gosub-empty', [('GS', 'l1'), ('P',), ('END',), ('L', 'l1'), ('R', None)]),
    ('gosub-return-label', [('GS', 'l1'), ('P',), ('END',), ('L', 'l1'), ('P',), ('R', 'l2'),
                            ('P',), ('L', 'l2'), ('P',)]),
    ('gosub-nested', [('GS', 'l1'), ('P',), ('END',), ('L', 'l1'), ('GS', 'l2'), ('P',), ('R', None),
                      ('L', 'l2'), ('P',), ('R', None)]),
    ('gosub-in-loop', [('for', 'f1', [('GS', 'l1')]), ('P',), ('END',), ('L', 'l1'), ('P',), ('R', None)]),
    ('gosub-in-sel', [('sel', ['lt'], [[('GS', 'l1')]], 0), ('P',), ('END',), ('L', 'l1'), ('P',), ('R', None)]),
    ('gosub-block', [('GS', 'l1'), ('P',), ('END',), ('L', 'l1'), ('ifb', ['vt'], [P, P], 1), ('R', None)]),
    ('end-mid', [('P',), ('END',), ('P',)]),
    ('end-in-if', [('ifb', ['vt'], [[('P',), ('END',)]], 0), ('P',)]),
    ('end-in-sub', [('call', 'call', [('P',), ('END',)]), ('P',)]),
    ('fail-top', [('P',), ('F',), ('P',)]),
    ('fail-after-label', [('G', 'l1'), ('P',), ('L', 'l1'), ('F',), ('P',)]),
    ('fail-in-gosub', [('GS', 'l1'), ('P',), ('END',), ('L', 'l1'), ('F',), ('R', None)]),
    ('onerror-resume-next', [('OE', 'l1'), ('P',), ('F',), ('P',), ('END',), ('L', 'l1'), ('P',), ('RS', 'next')]),
    ('onerror-resume', [('OE', 'l1'), ('P',), ('F',), ('P',), ('END',), ('L', 'l1'), ('P',), ('END',), ('RS', '')]),
    ('onerror-no-resume', [('OE', 'l1'), ('P',), ('F',), ('P',), ('END',), ('L', 'l1'), ('P',), ('END',)]),
    ('onerror-in-block', [('OE', 'l1'), ('for', 'f1', [('P',), ('F',), ('P',)]), ('P',), ('END',),
                          ('L', 'l1'), ('P',), ('RS', 'next')]),
    ('onerror-in-if1', [('OE', 'l1'), ('if1', 'vt', [('F',), ('P',)], None), ('P',), ('END',),
                        ('L', 'l1'), ('P',), ('RS', 'next')]),
    ('onerror-resume-next-stmt', [('OE', 'next'), ('P',), ('F',), ('P',)]),
    ('onerror-unused', [('OE', 'l1'), ('P',), ('END',), ('L', 'l1'), ('P',), ('RS', 'next')]),
    ('strings', [('S',), ('ifb', ['vt'], [[('S',)], [('S',)]], 1), ('S',)]),
]


def fail_programs(level):
    """the failing statement in every executed body of every depth-1 construct"""
    for shape, f in depth1(level):
        if shape[0] == 'if1':
            if COND_TRUE.get(shape[1]):
                yield ('if1', shape[1], [('F',)] + list(shape[2]), shape[3]), \
                    dict(f, construct='fail@if1.then')
            elif shape[3]:
                yield ('if1', shape[1], shape[2], list(shape[3]) + [('F',)]), \
                    dict(f, construct='fail@if1.else')
            continue
        for idx, runs in slots(shape):
            if not runs:
                continue
            cur = shape[2][idx] if shape[0] in ('ifb', 'sel') else shape[-1]
            for body in ([('F',)] + list(cur), list(cur) + [('F',)]):
                if cur == [] and body is not None and body != [('F',)]:
                    continue
                yield with_body(shape, idx, body), dict(f, construct='fail@' + f['construct'], slot=idx,
                                                      fbody=_name(body))
                if not cur:
                    break


def programs(tier):
    """-> list of (family, Prog) in size order inside each family"""
    out = []
    seen = set()

    def add(fam, items, style, feat):
        p = render(items, style, feat)
        if p.src in seen:
            return
        seen.add(p.src)
        p.feat['family'] = fam
        p.feat['style'] = style
        out.append((fam, p))

    quick = tier == 'quick'
    # depth 1: everything, the three layouts
    for shape, f in depth1('full'):
        for st in STYLES:
            add('depth1', wrap(shape), st, f)
    # depth 1 with richer leaves (string print, two statements)
    rich = ([('S',)], [('P',), ('P',)], [('P',), ('S',)])
    for gen in (ifb_shapes(leafs=rich, sels='edge', consts=False),
                sel_shapes(leafs=rich, sels='edge', maxcase=2),
                loop_shapes(leafs=rich, conds='edge'), routine_shapes(leafs=rich)):
        for shape, f in (_uniform(gen) if quick else gen):
            for st in STYLES:
                add('leaves', wrap(shape), st, f)
    # jumps, END, run-time error, ON ERROR / RESUME
    for name, items in JUMPS:
        for st in STYLES:
            add('jumps', items, st, {'construct': name})
    for shape, f in fail_programs('inner' if quick else 'full'):
        for st in STYLES if not quick else ('nl', 'colon'):
            add('fail', wrap(shape), st, f)
    # depth 2
    if quick:
        for shape, f in depth2('small', 'small'):
            for st in ('nl', 'clause'):
                add('depth2', wrap(shape), st, f)
    else:
        for shape, f in depth2('inner', 'inner'):
            for st in STYLES:
                add('depth2', wrap(shape), st, f)
    return out
