"""E7 - runner: worker pool, violation collection, findings ledger, evidence."""
import hashlib
import json
import multiprocessing as mp
import os
import re
import subprocess
import sys
import time
import traceback

ROOT = os.path.dirname(os.path.dirname(os.path.abspath(__file__)))
LEDGER = os.path.join(ROOT, 'known_findings.json')
EVIDENCE_SCHEMA = os.path.join(ROOT, 'schemas', 'EVIDENCE.schema.json')


def _flatten(d, prefix=''):
    out = {}
    for k, v in d.items():
        if isinstance(v, dict):
            out.update(_flatten(v, prefix + k + '.'))
        else:
            out[prefix + k] = v
    return out


def _match_value(pat, val):
    if isinstance(pat, dict):
        if 're' in pat:
            return isinstance(val, str) and re.search(pat['re'], val) is not None
        if 'in' in pat:
            return val in pat['in']
        if 'contains' in pat:
            try:
                return pat['contains'] in val
            except TypeError:
                return False
        if 'contains_any' in pat:
            try:
                return any(p in val for p in pat['contains_any'])
            except TypeError:
                return False
        if 'contains_all' in pat:
            try:
                return all(p in val for p in pat['contains_all'])
            except TypeError:
                return False
        if 'not' in pat:
            return not _match_value(pat['not'], val)
        return False
    if isinstance(pat, list):
        return val in pat or val == pat
    return val == pat


class Ledger:
    def __init__(self, path=LEDGER):
        self.entries = []
        if os.path.exists(path):
            with open(path) as f:
                self.entries = json.load(f).get('findings', [])
        ddir = os.path.join(os.path.dirname(path), 'known_findings.d')
        if os.path.isdir(ddir):
            for fn in sorted(os.listdir(ddir)):
                if fn.endswith('.json'):
                    with open(os.path.join(ddir, fn)) as f:
                        self.entries.extend(json.load(f).get('findings', []))

    def match(self, prop, features):
        flat = _flatten(features)
        for e in self.entries:
            if e.get('property') != prop or e.get('status') != 'open':
                continue
            m = e.get('match', {})
            if all(k in flat and _match_value(p, flat[k]) for k, p in m.items()):
                return e
        return None


def _worker_call(args):
    func, chunk, extra = args
    try:
        return ('ok', func(chunk, *extra))
    except BaseException as e:  # noqa
        return ('err', ''.join(traceback.format_exception(type(e), e, e.__traceback__))[-3000:])


def _worker_init():
    # VM trap messages go to stdout: silence them in workers
    from . import impl
    sys.stdout = impl.DEVNULL


class Violation:
    __slots__ = ('features', 'case', 'expected', 'observed', 'size')

    def __init__(self, features, case, expected=None, observed=None, size=0):
        self.features = features
        self.case = case
        self.expected = expected
        self.observed = observed
        self.size = size

    def to_tuple(self):
        return (self.features, self.case, self.expected, self.observed, self.size)


class Check:
    """One run of one property check."""

    def __init__(self, prop, tier='quick', seed=0, level='exploration'):
        self.prop = prop
        self.tier = tier
        self.seed = seed
        self.level = level
        self.t0 = time.time()
        self.violations = []      # Violation tuples
        self.cov = {'evaluations': 0, 'distinct_nontrivial': 0, 'samples': [],
                    'exhaustive': True}
        self.assumptions = []
        self.notes = []
        self.ledger = Ledger()
        self.ncpu = int(os.environ.get('VERIF_JOBS', os.cpu_count() or 4))
        # development aid: while several builders share the machine a cap file
        # (never committed, lives under the ignored .cache/) limits the pool size
        try:
            with open(os.path.join(ROOT, '.cache', 'jobs_cap')) as f:
                self.ncpu = max(1, min(self.ncpu, int(f.read().strip())))
        except (OSError, ValueError):
            pass
        self._pool = None
        self.deadline = None
        budget = os.environ.get('VERIF_BUDGET_S')
        if budget:
            self.deadline = self.t0 + float(budget)

    # ---- parallel map over chunks ------------------------------------
    def pool(self):
        if self._pool is None:
            ctx = mp.get_context('fork')
            self._pool = ctx.Pool(self.ncpu, initializer=_worker_init)
        return self._pool

    def pmap(self, func, items, extra=(), chunk=None, ordered=False):
        """func(chunk_of_items, *extra) -> result ; yields results.
        Items are split in contiguous chunks (so similar cases share a
        worker and its parse cache); chunk order is rotated by the seed."""
        items = list(items)
        if not items:
            return []
        if chunk is None:
            chunk = max(1, min(200, len(items) // (self.ncpu * 4) or 1))
        chunks = [items[i:i + chunk] for i in range(0, len(items), chunk)]
        if self.seed and len(chunks) > 1:
            r = self.seed % len(chunks)
            chunks = chunks[r:] + chunks[:r]
        jobs = [(func, c, extra) for c in chunks]
        results = []
        if self.ncpu <= 1 or len(chunks) == 1:
            it = map(_worker_call, jobs)
        else:
            it = self.pool().imap(_worker_call, jobs) if ordered else \
                self.pool().imap_unordered(_worker_call, jobs)
        for st, res in it:
            if st == 'err':
                self.close()
                print(f'HARNESS-ERROR property={self.prop}\n{res}', flush=True)
                sys.exit(2)
            results.append(res)
        return results

    def close(self):
        if self._pool is not None:
            self._pool.terminate()
            self._pool = None

    # ---- results -----------------------------------------------------
    def add_violations(self, vs):
        for v in vs:
            if isinstance(v, Violation):
                v = v.to_tuple()
            self.violations.append(tuple(v))

    def merge_stats(self, stats):
        """stats: dict with ints (summed), sets (unioned), lists (samples kept small)"""
        for k, v in stats.items():
            if isinstance(v, bool):
                self.cov[k] = self.cov.get(k, True) and v
            elif isinstance(v, (int, float)):
                self.cov[k] = self.cov.get(k, 0) + v
            elif isinstance(v, (set, frozenset)):
                self.cov.setdefault('_sets', {}).setdefault(k, set()).update(v)
            elif isinstance(v, dict):
                d = self.cov.setdefault(k, {})
                for kk, vv in v.items():
                    if isinstance(vv, (int, float)):
                        d[kk] = d.get(kk, 0) + vv
                    else:
                        d[kk] = vv
            elif isinstance(v, list):
                lst = self.cov.setdefault(k, [])
                for x in v:
                    if len(lst) < 12:
                        lst.append(x)

    def sample(self, x):
        if len(self.cov['samples']) < 12:
            self.cov['samples'].append(x)

    # ---- finish ------------------------------------------------------
    def finish(self, rule, extra_cov=None):
        self.close()
        cov = self.cov
        for k, s in cov.pop('_sets', {}).items():
            cov[k] = len(s)
        cov['rule'] = rule
        if extra_cov:
            cov.update(extra_cov)
        # group violations by feature signature
        groups = {}
        for feat, case, exp, obs, size in self.violations:
            key = json.dumps(feat, sort_keys=True, default=str)
            g = groups.get(key)
            if g is None:
                groups[key] = [feat, case, exp, obs, size, 1]
            else:
                g[5] += 1
                if size < g[4]:
                    g[1], g[2], g[3], g[4] = case, exp, obs, size
        known = {}
        fresh = []
        for key, (feat, case, exp, obs, size, n) in sorted(groups.items(), key=lambda kv: kv[1][4]):
            e = self.ledger.match(self.prop, feat)
            if e is not None:
                k = known.setdefault(e['id'], [e, 0, case])
                k[1] += n
            else:
                fresh.append((feat, case, exp, obs, n))
        out_lines = []
        for fid, (e, n, case) in sorted(known.items()):
            out_lines.append(f"KNOWN-FINDING: property={self.prop} {fid} {e.get('what', '')} ({n} instances)")
        vdir = os.path.join(os.environ.get('QV_REPLAY_DIR') or os.path.join(ROOT, 'replays'), self.prop)
        nviol = 0
        shown = 0
        for feat, case, exp, obs, n in fresh:
            nviol += 1
            if shown >= 25:
                continue
            shown += 1
            rec = {'property': self.prop, 'features': feat, 'case': case,
                   'expected': exp, 'observed': obs, 'instances': n,
                   'tier': self.tier}
            blob = json.dumps(rec, sort_keys=True, default=str, indent=1)
            sha = hashlib.sha1(blob.encode()).hexdigest()[:12]
            os.makedirs(vdir, exist_ok=True)
            path = os.path.join(vdir, sha + '.json')
            with open(path, 'w') as f:
                f.write(blob)
            out_lines.append(f'VIOLATION property={self.prop} replay={path}')
            out_lines.append('  features=' + json.dumps(feat, sort_keys=True, default=str)[:400])
        wall = time.time() - self.t0
        cov['known_findings_hit'] = {k: v[1] for k, v in known.items()}
        cov['violation_groups'] = nviol
        ev = {
            'property_id': self.prop,
            'tier': self.tier,
            'seed': self.seed,
            'level': self.level,
            'coverage': cov,
            'assumptions': self.assumptions,
            'wall_s': round(wall, 2),
            'violations': nviol,
        }
        evdir = os.environ.get('QV_EVIDENCE_DIR') or os.path.join(ROOT, 'evidence')
        os.makedirs(evdir, exist_ok=True)
        evpath = os.path.join(evdir, self.prop + '.json')
        from .impl import jsonable
        with open(evpath, 'w') as f:
            json.dump(jsonable(ev), f, indent=1, sort_keys=True)
        ok = validate_evidence(evpath)
        for l in out_lines:
            print(l)
        print(f'{self.prop} tier={self.tier} seed={self.seed} evaluations={cov.get("evaluations")} '
              f'nontrivial={cov.get("distinct_nontrivial")} violations={nviol} '
              f'known={len(known)} wall={wall:.1f}s exhaustive={cov.get("exhaustive")}', flush=True)
        if not ok:
            print(f'HARNESS-ERROR property={self.prop} evidence file does not validate')
            sys.exit(2)
        sys.exit(1 if nviol else 0)


def validate_evidence(path):
    code = (
        "import json,sys,jsonschema;"
        f"s=json.load(open('{EVIDENCE_SCHEMA}'));"
        f"d=json.load(open('{path}'));"
        "jsonschema.validate(d,s)"
    )
    if not os.path.exists(EVIDENCE_SCHEMA):
        return True
    try:
        r = subprocess.run(['python3-vt', '-c', code], capture_output=True, text=True, timeout=60)
    except Exception as e:
        print('evidence validation could not run:', e)
        return True
    if r.returncode != 0:
        print(r.stderr[-1500:])
        return False
    return True
