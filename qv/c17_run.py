"""C17 helpers: run a program and cut its terminal text per statement; evaluate
something in a forked child so that no module-level state of qbee/qvm survives
from one job to the next."""
import os
import pickle
import sys
import traceback

from . import impl

LOG = []        # (source, [opt, dbg], nstmts) of every program this process executed, in order


def cfgname(cfg):
    return 'O%d%s' % (cfg[0], 'g' if cfg[1] else '')


def observe(src, nstmts, cfg):
    """Compile and run `src`, whose statements of interest are each preceded by
    BEEP (and a final BEEP closes the last).
    -> (status, texts, typed) ; texts[i] = what statement i wrote,
    typed = the typed items of every executed PRINT, in order"""
    o, g = cfg
    LOG.append((src, [o, bool(g)], nstmts))
    r = impl.compile_text(src, o, g, want_listing=False)
    if not r.ok:
        return ('compile:' + r.brief()[:160], None, None)
    try:
        mod = impl.load(r.binary)
    except ValueError as e:
        return ('load:' + str(e)[:100], None, None)
    env = impl.Env({})
    out, _ = impl.run_module(mod, env, horizon=400 * (nstmts + 20) + 2000, typed_prints=True)
    texts = []
    cur = None
    for ev in out.events:
        if ev[0] == 'dev' and ev[1:3] == ('pcspkr', 'beep'):
            if cur is not None:
                texts.append(cur)
            cur = ''
        elif ev[0] == 'print' and cur is not None:
            cur += ev[1]
    status = 'ok'
    if out.end not in ('halt', 'eoc') or len(texts) != nstmts:
        status = 'run:%s/%s/%s' % (out.end, out.trap or out.exc, len(texts))
    return (status, texts, out.prints)


def isolated(fn, *args):
    """fn(*args) evaluated in a child forked from this process; the result comes
    back pickled through a pipe.  The calling process executes nothing of qbee."""
    r, w = os.pipe()
    pid = os.fork()
    if pid == 0:
        code = 1
        try:
            os.close(r)
            sys.stdout = impl.DEVNULL
            try:
                res = ('ok', fn(*args))
            except BaseException as e:  # noqa
                res = ('err', ''.join(traceback.format_exception(type(e), e, e.__traceback__))[-3000:])
            data = pickle.dumps(res, protocol=pickle.HIGHEST_PROTOCOL)
            with os.fdopen(w, 'wb') as f:
                f.write(data)
            code = 0
        finally:
            os._exit(code)
    os.close(w)
    with os.fdopen(r, 'rb') as f:
        data = f.read()
    os.waitpid(pid, 0)
    if not data:
        raise RuntimeError('C17: isolated child %d returned nothing' % pid)
    st, res = pickle.loads(data)
    if st == 'err':
        raise RuntimeError('C17: in isolated child:\n' + res)
    return res


def classify_all(results, recheck_many, cap=200):
    """results: [(violation tuples, log of the job that found them)], where
    case['log_index'] = index in that log of the program that showed the violation.
    Called in the main process; recheck_many(cases) -> {index: still violates}, each
    case evaluated on its own in a fresh child of a process that executed nothing
    of qbee.  The smallest
    violation of each feature group - the one the runner will write a replay for -
    is evaluated again on its own in a fresh child, for the `cap` smallest groups:
    case['fresh_process'] says whether it shows there too; if it does not, the
    deviation needs the programs executed before it in the same process, which
    are then made part of the case (and the divergence is named accordingly)."""
    groups = {}
    for ri, (viols, log) in enumerate(results):
        for vi, v in enumerate(viols):
            key = repr(sorted(v[0].items()))
            if key not in groups or v[4] < groups[key][0]:
                groups[key] = (v[4], ri, vi)
    chosen = [(ri, vi) for _, ri, vi in sorted(groups.values())[:cap]]
    cases = []
    for ri, vi in chosen:
        c = dict(results[ri][0][vi][1])
        c.pop('log_index', None)
        cases.append(c)
    still = recheck_many(cases) if cases else {}
    verdict = dict((rv, still[i]) for i, rv in enumerate(chosen))
    # the other members of a group follow their representative (so that the group stays one group)
    group_verdict = {}
    for key, (_, ri, vi) in groups.items():
        if (ri, vi) in verdict:
            group_verdict[key] = verdict[(ri, vi)]
    out = []
    for ri, (viols, log) in enumerate(results):
        for vi, v in enumerate(viols):
            feat, case, exp, got, size = v
            case = dict(case)
            li = case.pop('log_index', None)
            if (ri, vi) in verdict:
                if verdict[(ri, vi)]:
                    case['fresh_process'] = 'reproduces'
                else:
                    case['fresh_process'] = 'does-not-reproduce'
                    case['earlier_programs'] = [list(e) for e in log[:li]] if li is not None else []
                    feat = dict(feat)
                    feat['divergence'] = feat['divergence'] + '+process-history'
            else:
                case['fresh_process'] = 'not-reevaluated'
                if group_verdict.get(repr(sorted(feat.items()))) is False:
                    feat = dict(feat)
                    feat['divergence'] = feat['divergence'] + '+process-history'
            out.append((feat, case, exp, got, size))
    return out


def run_earlier(case):
    """replay support: execute the programs that preceded the case in its job"""
    for src, cfg, n in case.get('earlier_programs', []):
        observe(src, n, tuple(cfg))
