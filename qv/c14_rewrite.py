"""C14 helper: a conservative token-level view of QBASIC source text and the
catalogue of behaviour-neutral rewritings of the property statement.

Nothing here imports qbee: the tokenizer is the harness's own (language
knowledge only), so that a change of qbee's grammar cannot move the oracle.

Model
-----
A program is a list of `Line`s; a line is a list of `Tok`s, each with the
white space in front of it (`ws`) and a `glue` flag (no blank may be put
between this token and the previous one).  The text of string literals,
comments (`' ...`, `REM ...`) and DATA bodies (everything after the DATA keyword
up to the end of the line) is opaque: it is carried along verbatim and no rule
ever produces a site inside it.  A line the tokenizer is not sure about is
*frozen*: no rule touches it or its line breaks.

An `Edit` is one application of one rule at one site: a list of primitive
operations on token texts / gaps / line breaks plus the set of resources it
claims.  Edits whose resource sets are disjoint compose by union (`render`);
others are reported as conflicting and the combination is skipped.
"""
import re

KEYWORDS = frozenset("""
abs access and any as asc atn base beep binary bload bsave case call cdbl clng
chain chdir chr$ cint circle clear close cls color com cos common const csng
csrlin cvd cvdmbf cvi cvl cvs cvsmbf data date$ declare def defdbl defint deflng
defsng defstr dim do double draw else elseif end environ$ environ eof eqv erase
erdev$ erdev erl err error exit exp field fileattr files fix for fre freefile
function get gosub goto hex$ if imp inkey$ inp input$ input instr integer int
ioctl ioctl$ is key kill lbound lcase$ left$ len let line list loc locate lock
lof log long loop lpos lprint lset ltrim$ mid$ mkd$ mkdir mkdmbf$ mki$ mkl$ mks$
mksmbf$ mod name next not oct$ off on open option or out output paint palette
pcopy peek pen play pmap point poke pos preset print pset put random randomize
read redim rem reset restore resume return right$ rmdir rnd rset rtrim$ run
screen seek seg select sgn shared shell single sleep sound space$ spc sqr static
step stick stop str$ strig string$ string sub swap system tab tan then time$
timer to troff tron type ubound ucase$ unlock until using val varptr$ varptr
varseg view wait wend while width window write xor
""".split())

# statements that are not "simple statements" for the split/join rule
BLOCK_STRICT = frozenset(['if', 'else', 'elseif', 'end if', 'sub', 'function',
                          'end sub', 'end function', 'type', 'end type',
                          'declare', 'defint', 'deflng', 'defsng', 'defdbl',
                          'defstr', 'rem', 'data', 'kw', 'op', 'num', 'str',
                          'comment', 'exit sub', 'exit function'])
LOOPISH = frozenset(['for', 'next', 'while', 'wend', 'do', 'loop', 'select',
                     'case'])
LABEL_REF_KW = frozenset(['goto', 'gosub', 'restore', 'return', 'resume'])

_WORD = re.compile(r'[A-Za-z][A-Za-z0-9]*')
_NUM = re.compile(r'(?:[0-9]+(?:\.[0-9]*)?|\.[0-9]+)(?:[eEdD][+-]?[0-9]+)?[%&!#]?'
                  r'|&[Hh][0-9A-Fa-f]+[%&]?|&[Oo][0-7]+[%&]?')
_OP2 = ('<=', '>=', '<>', '><', '=<', '=>')
_OP1 = '=<>+-*/\\^(),;:'


class Tok:
    __slots__ = ('kind', 'text', 'ws', 'glue')

    def __init__(self, kind, text, ws='', glue=False):
        self.kind = kind      # kw id num str op comment rem data lineno label
        self.text = text
        self.ws = ws
        self.glue = glue

    @property
    def low(self):
        return self.text.lower()

    def __repr__(self):
        return f'<{self.kind} {self.text!r}>'


class Line:
    __slots__ = ('toks', 'trail', 'frozen', 'why')

    def __init__(self):
        self.toks = []
        self.trail = ''       # white space after the last token
        self.frozen = False
        self.why = None

    def code_toks(self):
        return [t for t in self.toks if t.kind not in ('comment',)]

    def has_comment(self):
        return any(t.kind == 'comment' for t in self.toks)

    def words(self):
        return [t.low for t in self.toks if t.kind == 'kw']


def tokenize_line(text):
    ln = Line()
    i = 0
    n = len(text)
    toks = ln.toks

    def freeze(why):
        ln.frozen = True
        ln.why = why

    if '\r' in text or '\x0b' in text or '\x0c' in text:
        freeze('control character')
    stmt_start = True      # next token starts a statement
    first = True
    while i < n:
        j = i
        while j < n and text[j] in ' \t':
            j += 1
        ws = text[i:j]
        if j >= n:
            ln.trail = ws
            break
        c = text[j]
        i = j
        if c == "'":
            toks.append(Tok('comment', text[i:], ws))
            i = n
            break
        if c == '"':
            k = text.find('"', i + 1)
            if k < 0:
                freeze('unterminated string')
                toks.append(Tok('str', text[i:], ws))
                i = n
                break
            toks.append(Tok('str', text[i:k + 1], ws))
            i = k + 1
            stmt_start = False
            first = False
            continue
        m = _NUM.match(text, i)
        if m and (c.isdigit() or c == '&' or (c == '.' and i + 1 < n and text[i + 1].isdigit())):
            t = m.group(0)
            e = m.end()
            if first and t.isdigit() and (e >= n or text[e] in ' \t'):
                toks.append(Tok('lineno', t, ws))
            else:
                if first and t.isdigit():
                    freeze('digits glued to text at line start')
                toks.append(Tok('num', t, ws))
                stmt_start = False
            if e < n and (text[e].isalnum() or text[e] in '.$_'):
                # e.g. "1e" or "10x": leave such a line alone
                freeze('number glued to a word')
            i = e
            first = False
            continue
        m = _WORD.match(text, i)
        if m:
            e = m.end()
            word = m.group(0)
            # dotted continuation  a.b.c   (never for keywords)
            full = word
            while e + 1 < n and text[e] == '.' and text[e + 1].isalpha():
                m2 = _WORD.match(text, e + 1)
                full = text[i:m2.end()]
                e = m2.end()
            if e < n and text[e] in '%&!#$':
                e += 1
                full = text[i:e]
            if e < n and (text[e] == '_' or text[e] == '.'):
                freeze('unusual identifier character')
            low = full.lower()
            if low in KEYWORDS:
                kind = 'kw'
            elif '.' not in full and low.rstrip('%&!#') in KEYWORDS:
                kind = 'kw'          # e.g. len% - not a legal identifier
                freeze('keyword with a type suffix')
            else:
                kind = 'id'
            if kind == 'id' and first and e < n and text[e] == ':' and \
                    full.isalnum():
                toks.append(Tok('label', full, ws))
                toks.append(Tok('op', ':', '', glue=True))
                i = e + 1
                first = False
                stmt_start = True
                continue
            if kind == 'id' and first and full.isalnum():
                k = e
                while k < n and text[k] in ' \t':
                    k += 1
                if k < n and text[k] == ':' and k > e:
                    freeze('blank between a leading word and a colon')
            tk = Tok(kind, full, ws)
            toks.append(tk)
            i = e
            first = False
            if kind == 'kw' and low == 'rem':
                if i < n:
                    toks.append(Tok('comment', text[i:], '', glue=True))
                i = n
                break
            if kind == 'kw' and low == 'data':
                if not stmt_start:
                    freeze('DATA not at statement start')
                if i < n:
                    toks.append(Tok('data', text[i:], '', glue=True))
                i = n
                break
            stmt_start = kind == 'kw' and low in ('then', 'else')
            continue
        if c == '.' and i + 1 < n and text[i + 1].isalpha() and toks and \
                toks[-1].text == ')' and not ws:
            m2 = _WORD.match(text, i + 1)
            e = m2.end()
            while e + 1 < n and text[e] == '.' and text[e + 1].isalpha():
                m2 = _WORD.match(text, e + 1)
                e = m2.end()
            toks.append(Tok('id', text[i:e], '', glue=True))
            if e < n and text[e] in '%&!#$._':
                freeze('unusual field reference')
            i = e
            first = False
            continue
        two = text[i:i + 2]
        if two in _OP2:
            toks.append(Tok('op', two, ws))
            i += 2
            first = False
            stmt_start = False
            continue
        if c in _OP1:
            toks.append(Tok('op', c, ws))
            i += 1
            first = False
            stmt_start = c == ':'
            continue
        # anything else: leave the line alone
        freeze('character %r' % c)
        toks.append(Tok('comment', text[i:], ws))
        i = n
        break
    return ln


class Prog:
    def __init__(self, src):
        self.src = src
        self.final_nl = src.endswith('\n')
        body = src[:-1] if self.final_nl else src
        self.lines = [tokenize_line(t) for t in body.split('\n')]
        self._analyse()

    # ------------------------------------------------------------------
    def _analyse(self):
        self.ids = set()
        self.numbers = set()
        for ln in self.lines:
            for t in ln.toks:
                if t.kind in ('id', 'label'):
                    for p in t.low.strip('.').rstrip('%&!#$').split('.'):
                        self.ids.add(p)
                elif t.kind in ('lineno', 'num'):
                    self.numbers.add(t.text)

    def text(self):
        return render(self, [])


def statements(ln):
    """[(start, end)] token index ranges of the statements of a line (comment,
    label prefix and separators excluded).  THEN / ELSE of a one-line IF start
    a new statement."""
    toks = ln.toks
    out = []
    i = 0
    n = len(toks)
    if n and toks[0].kind == 'lineno':
        i = 1
    elif n >= 2 and toks[0].kind == 'label':
        i = 2
    start = i
    depth = 0
    while i < n:
        t = toks[i]
        if t.kind == 'comment' and not (i and toks[i - 1].kind == 'kw' and toks[i - 1].low == 'rem'):
            break
        if t.kind == 'op':
            if t.text == '(':
                depth += 1
            elif t.text == ')':
                depth -= 1
            elif t.text == ':' and depth <= 0:
                if i > start:
                    out.append((start, i))
                start = i + 1
        elif t.kind == 'kw' and depth <= 0 and t.low in ('then', 'else') and i > start:
            # "if c then <stmt>" / "... else <stmt>"
            out.append((start, i + 1))
            start = i + 1
        i += 1
    end = i
    if end > start:
        out.append((start, end))
    return out


def _top_colons(ln):
    """indices of colons at parenthesis depth 0 that separate statements"""
    toks = ln.toks
    out = []
    depth = 0
    i0 = 0
    if toks and toks[0].kind == 'label':
        i0 = 2
    for i in range(i0, len(toks)):
        t = toks[i]
        if t.kind in ('comment', 'data'):
            break
        if t.kind == 'op':
            if t.text == '(':
                depth += 1
            elif t.text == ')':
                depth -= 1
            elif t.text == ':' and depth <= 0:
                out.append(i)
    return out


def _alt_case(s):
    out = []
    up = False
    for ch in s:
        if ch.isalpha():
            out.append(ch.upper() if up else ch.lower())
            up = not up
        else:
            out.append(ch)
    return ''.join(out)


def case_variants(text):
    seen = {text}
    out = []
    for name, v in (('upper', text.upper()), ('lower', text.lower()),
                    ('mixed', _alt_case(text)),
                    ('capital', text[:1].upper() + text[1:].lower())):
        if v not in seen:
            seen.add(v)
            out.append((name, v))
    return out


class Edit:
    __slots__ = ('rule', 'variant', 'ops', 'res', 'line', 'stmt', 'tok', 'note', 'lines')

    def __init__(self, rule, variant, ops, line, stmt='', tok='', note='', claims=()):
        self.rule = rule
        self.variant = variant
        self.ops = ops
        self.line = line
        self.stmt = stmt
        self.tok = tok
        self.note = note
        self.res = frozenset(_resources(ops)) | frozenset(claims)
        self.lines = frozenset([op[1] for op in ops] + [op[1] + 1 for op in ops if op[0] == 'join'])

    def describe(self):
        return {'rule': self.rule, 'variant': self.variant, 'line': self.line,
                'stmt': self.stmt, 'tok': self.tok, 'ops': [list(o) for o in self.ops]}


def _resources(ops):
    for op in ops:
        k = op[0]
        if k == 'repl':
            yield ('t', op[1], op[2])
        elif k == 'ws':
            yield ('w', op[1], op[2])
        elif k == 'pre':
            yield ('pre', op[1], op[2])
        elif k == 'post':
            yield ('post', op[1], op[2])
        elif k == 'eol':
            yield ('eol', op[1])
        elif k == 'insline':
            yield ('ins', op[1])
        elif k == 'join':
            yield ('eol', op[1])
            yield ('ins', op[1] + 1)
        elif k == 'delline':
            yield ('del', op[1])
            yield ('ins', op[1])
            yield ('ins', op[1] + 1)
            yield ('eol', op[1])
        elif k == 'split':
            yield ('t', op[1], op[2])


def compatible(edits):
    seen = set()
    for e in edits:
        if seen & e.res:
            return False
        seen |= e.res
    return True


def render(prog, edits):
    """source text with the edits applied (edits must be compatible)"""
    repl = {}
    wsr = {}
    pre = {}
    post = {}
    eol = {}
    ins = {}
    join = set()
    dele = set()
    for e in edits:
        for op in e.ops:
            k = op[0]
            if k in ('repl', 'split'):
                repl[(op[1], op[2])] = '\n' if k == 'split' else op[3]
            elif k == 'ws':
                wsr[(op[1], op[2])] = op[3]
            elif k == 'pre':
                pre[(op[1], op[2])] = op[3]
            elif k == 'post':
                post[(op[1], op[2])] = op[3]
            elif k == 'eol':
                eol[op[1]] = op[2]
            elif k == 'insline':
                ins.setdefault(op[1], []).append(op[2])
            elif k == 'join':
                join.add(op[1])
            elif k == 'delline':
                dele.add(op[1])
    out = []
    nl = len(prog.lines)
    pending = None
    for li, ln in enumerate(prog.lines):
        if li in dele:
            continue
        for t in ins.get(li, ()):
            out.append(t)
        parts = []
        for ti, t in enumerate(ln.toks):
            ws = wsr.get((li, ti), t.ws)
            tx = repl.get((li, ti), t.text)
            parts.append(ws)
            p = pre.get((li, ti))
            if p:
                parts.append(p)
            parts.append(tx)
            p = post.get((li, ti))
            if p:
                parts.append(p)
        parts.append(wsr.get((li, len(ln.toks)), ln.trail))
        if li in eol:
            parts.append(eol[li])
        s = ''.join(parts)
        if pending is not None:
            s = pending + s
            pending = None
        if li in join:
            pending = s + ':'
            continue
        out.append(s)
    if pending is not None:
        out.append(pending)
    for t in ins.get(nl, ()):
        out.append(t)
    res = '\n'.join(out)
    if prog.final_nl:
        res += '\n'
    return res


# ----------------------------------------------------------------------
# the catalogue

RULES = ['kwcase', 'idcase', 'blank-widen', 'blank-tab', 'blank-insert',
         'blank-remove', 'blank-eol', 'comment-add', 'comment-rem-stmt',
         'comment-strip', 'line-rem', 'line-empty', 'line-empty-del', 'split',
         'join', 'join-loop', 'let-add', 'let-del', 'call-add', 'call-del',
         'next-var-add', 'next-var-del', 'relop-ne', 'relop-alt',
         'label-rename', 'lineno-renumber']

_SAFE_ADJ = set('=<>+-*/\\^(),;:"')


def _stmt_word(ln, st):
    a, b = st
    t = ln.toks[a]
    if t.kind == 'kw':
        w = t.low
        if w in ('end', 'exit', 'on', 'def', 'view', 'line') and a + 1 < b and ln.toks[a + 1].kind == 'kw':
            w += ' ' + ln.toks[a + 1].low
        return w
    if t.kind == 'id':
        i = a + 1
        if i < b and ln.toks[i].text == '(':
            k = _matching(ln.toks, i)
            if k < 0 or k >= b:
                return 'call-or-decl'
            i = k + 1
        while i < b and ln.toks[i].kind == 'id' and ln.toks[i].glue:
            i += 1
        if i < b and ln.toks[i].kind == 'op' and ln.toks[i].text == '=':
            return 'assign'
        return 'call-or-decl'
    return t.kind


def _tok_class(t):
    if t.kind == 'kw':
        return 'kw:' + t.low
    if t.kind == 'id':
        c = 'id'
        if '.' in t.text:
            c += '.field'
        if t.text[-1] in '%&!#$':
            c += t.text[-1]
        return c
    if t.kind == 'op':
        return t.text
    return t.kind


def _stmt_of(ln, sts, ti):
    for st in sts:
        if st[0] <= ti < st[1]:
            return _stmt_word(ln, st)
    return ''


def _gap_ok(prev, cur):
    """may white space between prev and cur be changed at all?"""
    if cur.glue:
        return False
    if cur.kind in ('data',):
        return False
    if prev is not None and prev.kind == 'kw' and prev.low == 'data':
        return False
    return True


def _removable(prev, cur):
    """may the blank between prev and cur be removed without fusing tokens or
    changing what the tokens are?"""
    if prev is None or not cur.ws:
        return False
    if prev.kind in ('lineno',):
        return False
    if cur.kind == 'comment':
        return True
    a = prev.text[-1]
    b = cur.text[0]
    if a not in _SAFE_ADJ and b not in _SAFE_ADJ:
        return False
    # never create a two-character operator, a sign glued to an exponent, an
    # "&H" prefix, a ".5" after a name or a type suffix
    if (a + b) in _OP2 or a in '<>=' and b in '<>=':
        return False
    if b == '.' or a == '.' or (a == '"' and b == '"'):
        return False
    if a in '%&!#$' and b in '%&!#$':
        return False
    if b == '&' or a == '&':
        return False
    if prev.kind == 'num' and cur.kind in ('id', 'kw', 'num'):
        return False
    if prev.kind in ('id', 'kw') and cur.kind == 'num':
        return False
    return True


def single_edits(prog, rules=None, per_line_blanks=False):
    """every application of every rule at every site -> list of Edit"""
    want = set(rules or RULES)
    out = []
    L = prog.lines
    nl = len(L)
    stm = [statements(ln) if not ln.frozen else [] for ln in L]
    words = [[_stmt_word(ln, st) for st in sts] for ln, sts in zip(L, stm)]

    def has_if(li):
        return any(t.kind == 'kw' and t.low in ('if', 'elseif', 'else', 'then') for t in L[li].toks)

    # ---- letter case -------------------------------------------------
    for li, ln in enumerate(L):
        if ln.frozen:
            continue
        for ti, t in enumerate(ln.toks):
            if t.kind == 'kw' and 'kwcase' in want:
                for vn, v in case_variants(t.text):
                    if vn == 'capital':
                        continue
                    out.append(Edit('kwcase', vn, [('repl', li, ti, v)], li,
                                    _stmt_of(ln, stm[li], ti), _tok_class(t)))
            elif t.kind in ('id', 'label') and 'idcase' in want:
                for vn, v in case_variants(t.text):
                    if vn == 'capital':
                        continue
                    out.append(Edit('idcase', vn, [('repl', li, ti, v)], li,
                                    'label-def' if t.kind == 'label' else _stmt_of(ln, stm[li], ti),
                                    _tok_class(t)))
    # ---- blanks --------------------------------------------------------
    for li, ln in enumerate(L):
        if ln.frozen:
            continue
        per = {'blank-widen': [], 'blank-tab': [], 'blank-insert': [], 'blank-remove': []}
        toks = ln.toks
        for ti, t in enumerate(toks):
            prev = toks[ti - 1] if ti else None
            if not _gap_ok(prev, t):
                continue
            stw = _stmt_of(ln, stm[li], ti)
            cls = (_tok_class(prev) if prev else '^') + '|' + _tok_class(t)
            if t.ws or ti == 0:
                per['blank-widen'].append((ti, t.ws + '  ', stw, cls))
                if t.ws:
                    per['blank-tab'].append((ti, '\t' * len(t.ws), stw, cls))
                else:
                    per['blank-tab'].append((ti, '\t', stw, cls))
            else:
                per['blank-insert'].append((ti, ' ', stw, cls))
            if _removable(prev, t):
                per['blank-remove'].append((ti, '', stw, cls))
        for rule, sites in per.items():
            if rule not in want or not sites:
                continue
            if per_line_blanks:
                out.append(Edit(rule, 'line', [('ws', li, ti, w) for ti, w, _, _ in sites], li,
                                ','.join(sorted(set(words[li]))), 'line'))
            else:
                for ti, w, stw, cls in sites:
                    out.append(Edit(rule, 'gap', [('ws', li, ti, w)], li, stw, cls))
        if 'blank-eol' in want and toks and not any(t.kind == 'data' or t.kind == 'kw' and t.low == 'data' for t in toks):
            out.append(Edit('blank-eol', 'trail', [('ws', li, len(toks), ln.trail + ' \t')], li,
                            ','.join(sorted(set(words[li]))), 'eol'))
    # ---- comments and empty lines -------------------------------------
    for li, ln in enumerate(L):
        if ln.frozen:
            continue
        toks = ln.toks
        has_data = any(t.kind == 'data' or t.kind == 'kw' and t.low == 'data' for t in toks)
        has_c = ln.has_comment()
        sw = ','.join(sorted(set(words[li])))
        if not has_data and not has_c:
            if 'comment-add' in want:
                out.append(Edit('comment-add', 'apostrophe', [('eol', li, " ' c: x = 1")], li, sw, 'eol'))
            if 'comment-rem-stmt' in want and words[li] and not has_if(li) and \
                    not _bare_word_line(ln, stm[li]) and \
                    toks[-1].text != ':' and not (set(words[li]) & BLOCK_STRICT) and \
                    not _in_type_block(prog, li, words):
                out.append(Edit('comment-rem-stmt', 'rem', [('eol', li, ': REM c')], li, sw, 'eol'))
        if has_c and 'comment-strip' in want:
            ci = next(i for i, t in enumerate(toks) if t.kind == 'comment')
            if toks[ci].glue:          # REM <text>: keep the REM, drop its text
                out.append(Edit('comment-strip', 'rem-text', [('repl', li, ci, '')], li, sw, 'rem'))
            else:
                out.append(Edit('comment-strip', 'apostrophe',
                                [('repl', li, ci, ''), ('ws', li, ci, '')], li, sw, 'comment'))
        if not toks and 'line-empty-del' in want and nl > 1:
            out.append(Edit('line-empty-del', 'del', [('delline', li)], li, '', 'empty'))
    for li in range(nl + 1):
        if li < nl and L[li].frozen or li > 0 and L[li - 1].frozen:
            continue
        ctx = ','.join(sorted(set(words[li]))) if li < nl else 'eof'
        if 'line-rem' in want:
            out.append(Edit('line-rem', 'rem', [('insline', li, 'REM  then x = 1: goto 5')], li, ctx, 'line'))
            out.append(Edit('line-rem', 'apostrophe', [('insline', li, "  ' \"note")], li, ctx, 'line'))
        if 'line-empty' in want:
            out.append(Edit('line-empty', 'empty', [('insline', li, '')], li, ctx, 'line'))
            out.append(Edit('line-empty', 'blank', [('insline', li, ' \t')], li, ctx, 'line'))
    # ---- split / join ---------------------------------------------------
    for li, ln in enumerate(L):
        if ln.frozen:
            continue
        toks = ln.toks
        if 'split' in want:
            first_if = next((i for i, t in enumerate(toks)
                             if t.kind == 'kw' and t.low in ('if', 'elseif', 'else', 'then')), len(toks))
            for ci in _top_colons(ln):
                if ci > first_if:
                    break
                # something must follow the colon, and precede it
                if ci + 1 >= len(toks) or toks[ci + 1].kind == 'comment' or toks[ci + 1].text == ':':
                    continue
                if ci == 0 or toks[ci - 1].text == ':' or toks[ci - 1].kind in ('lineno',):
                    continue
                if toks[ci + 1].kind == 'id' and (ci + 2 >= len(toks) or toks[ci + 2].text == ':'
                                                  or toks[ci + 2].kind == 'comment'):
                    # a bare word moved to the start of a line: with a colon
                    # after it it would be a label, and alone it must not be
                    # joined again by another rule - leave it
                    continue
                out.append(Edit('split', 'colon', [('split', li, ci)], li,
                                ','.join(words[li]), ':'))
        if li + 1 < nl and not L[li + 1].frozen:
            l2 = L[li + 1]
            w1, w2 = words[li], words[li + 1]
            if not toks or not l2.toks or not w1 or not w2:
                continue
            if ln.has_comment() or any(t.kind == 'data' or t.kind == 'kw' and t.low == 'data' for t in toks):
                continue
            if _bare_word_line(ln, stm[li]):
                continue          # "foo" + ":" would turn a call into a label
            if toks[-1].text == ':':
                continue
            if l2.toks[0].kind in ('lineno', 'label', 'comment'):
                continue
            if has_if(li) or has_if(li + 1):
                continue
            ws = set(w1) | set(w2)
            heads = {w.split(' ')[0] for w in ws}
            if ws & BLOCK_STRICT or 'call-or-decl' in ws and _in_type_block(prog, li, words):
                continue
            rule = 'join-loop' if heads & LOOPISH else 'join'
            if rule in want:
                out.append(Edit(rule, 'colon', [('join', li)], li, ','.join(w1) + '|' + ','.join(w2), ':'))
    # ---- LET -------------------------------------------------------------
    for li, ln in enumerate(L):
        if ln.frozen or _in_type_block(prog, li, words):
            continue
        toks = ln.toks
        for (a, b), w in zip(stm[li], words[li]):
            if w == 'assign' and 'let-add' in want:
                out.append(Edit('let-add', 'let', [('pre', li, a, 'LET ')], li, w, _tok_class(toks[a])))
            if w == 'let' and 'let-del' in want and a + 1 < b and toks[a + 1].kind == 'id' and toks[a + 1].ws:
                out.append(Edit('let-del', 'let', [('repl', li, a, ''), ('ws', li, a + 1, '')], li, w,
                                _tok_class(toks[a + 1])))
    # ---- CALL --------------------------------------------------------------
    for li, ln in enumerate(L):
        if ln.frozen or _in_type_block(prog, li, words):
            continue
        toks = ln.toks
        for (a, b), w in zip(stm[li], words[li]):
            if w == 'call-or-decl' and 'call-add' in want:
                t0 = toks[a]
                if '.' in t0.text or t0.text[-1] in '%&!#$':
                    continue
                if any(t.kind == 'kw' and t.low == 'as' for t in toks[a:b]):
                    continue
                # THEN/ELSE that ended this statement are not arguments
                e = b
                if toks[e - 1].kind == 'kw' and toks[e - 1].low in ('then', 'else'):
                    e -= 1
                if e == a + 1:
                    out.append(Edit('call-add', 'noargs', [('pre', li, a, 'CALL ')], li, w,
                                    'id|' + _after(toks, e)))
                else:
                    if toks[a + 1].glue or not _balanced(toks[a + 1:e]):
                        continue
                    out.append(Edit('call-add', 'args',
                                    [('pre', li, a, 'CALL '), ('pre', li, a + 1, '('),
                                     ('post', li, e - 1, ')')], li, w, 'id|' + _after(toks, e)))
            if w == 'call' and 'call-del' in want:
                e = b
                if toks[e - 1].kind == 'kw' and toks[e - 1].low in ('then', 'else'):
                    e -= 1
                if a + 1 >= e or toks[a + 1].kind != 'id' or not toks[a + 1].ws:
                    continue
                if e == a + 2:
                    if a == 0 and e < len(toks) and toks[e].text == ':':
                        continue          # "foo:" at line start is a label
                    # at line start the bare name must not get a colon after it
                    claims = [('eol', li)] if a == 0 and e == len(toks) else []
                    out.append(Edit('call-del', 'noargs', [('repl', li, a, ''), ('ws', li, a + 1, '')],
                                    li, w, 'id|' + _after(toks, e), claims=claims))
                elif toks[a + 2].text == '(' and toks[e - 1].text == ')' and \
                        _matching(toks, a + 2) == e - 1 and e - 1 > a + 3:
                    out.append(Edit('call-del', 'args',
                                    [('repl', li, a, ''), ('ws', li, a + 1, ''),
                                     ('repl', li, a + 2, ' '), ('repl', li, e - 1, '')],
                                    li, w, 'id|' + _after(toks, e)))
    # ---- NEXT ---------------------------------------------------------------
    if want & {'next-var-add', 'next-var-del'}:
        out.extend(_next_edits(prog, stm, words, want))
    # ---- relational operator spellings ------------------------------------
    alt = {'<>': '><', '><': '<>', '<=': '=<', '=<': '<=', '>=': '=>', '=>': '>='}
    for li, ln in enumerate(L):
        if ln.frozen:
            continue
        for ti, t in enumerate(ln.toks):
            if t.kind == 'op' and t.text in alt:
                rule = 'relop-ne' if t.text in ('<>', '><') else 'relop-alt'
                if rule in want:
                    out.append(Edit(rule, t.text + '->' + alt[t.text], [('repl', li, ti, alt[t.text])], li,
                                    _stmt_of(ln, stm[li], ti), t.text))
    # ---- labels and line numbers ---------------------------------------------
    if want & {'label-rename', 'lineno-renumber'}:
        out.extend(_label_edits(prog, stm, want))
    return out


def _bare_word_line(ln, sts):
    """line without prefix whose only/first statement is one bare word"""
    if not sts:
        return False
    a, b = sts[0]
    return a <= 1 and b == a + 1 and ln.toks[a].kind == 'id'


def _after(toks, e):
    if e >= len(toks):
        return 'eol'
    return _tok_class(toks[e])


def _balanced(toks):
    d = 0
    for t in toks:
        if t.kind == 'op':
            if t.text == '(':
                d += 1
            elif t.text == ')':
                d -= 1
                if d < 0:
                    return False
    return d == 0


def _matching(toks, i):
    d = 0
    for k in range(i, len(toks)):
        t = toks[k]
        if t.kind == 'op':
            if t.text == '(':
                d += 1
            elif t.text == ')':
                d -= 1
                if d == 0:
                    return k
    return -1


def _in_type_block(prog, li, words):
    """is line li between TYPE and END TYPE?"""
    inside = False
    for k in range(li + 1):
        for w in words[k]:
            if w == 'type':
                inside = True
            elif w == 'end type':
                inside = False
    return inside


def _next_edits(prog, stm, words, want):
    """NEXT <-> NEXT v, only when FOR/NEXT nest cleanly in text order and no
    FOR/NEXT sits on a line with IF/THEN/ELSE"""
    L = prog.lines
    stack = []
    cand = []
    for li, ln in enumerate(L):
        ws = words[li]
        if not ws:
            continue
        lw = ln.words()
        involved = any(w in ('for', 'next') for w in ws) or 'for' in lw and 'exit' not in lw or 'next' in lw
        if not involved:
            continue
        risky = ln.frozen or any(x in ('if', 'then', 'else', 'elseif') for x in lw)
        for (a, b), w in zip(stm[li], ws):
            toks = ln.toks
            if w == 'for':
                if risky or a + 1 >= b or toks[a + 1].kind != 'id':
                    return []
                stack.append(toks[a + 1].text)
            elif w == 'next':
                if risky:
                    return []
                args = toks[a + 1:b]
                if not args:
                    if not stack:
                        return []
                    v = stack.pop()
                    cand.append(('add', li, a, v))
                elif len(args) == 1 and args[0].kind == 'id':
                    if not stack or stack[-1].lower() != args[0].low:
                        return []
                    stack.pop()
                    if args[0].ws:
                        cand.append(('del', li, a, None))
                else:
                    # NEXT a, b : leave alone, but keep the stack right
                    for x in args:
                        if x.kind == 'id':
                            if not stack or stack[-1].lower() != x.low:
                                return []
                            stack.pop()
                        elif x.text != ',':
                            return []
            elif w in ('sub', 'function', 'end sub', 'end function'):
                if stack:
                    return []
    if stack:
        return []
    out = []
    for kind, li, a, v in cand:
        if kind == 'add' and 'next-var-add' in want:
            out.append(Edit('next-var-add', 'var', [('post', li, a, ' ' + v)], li, 'next', 'kw:next'))
        elif kind == 'del' and 'next-var-del' in want:
            out.append(Edit('next-var-del', 'var', [('repl', li, a + 1, ''), ('ws', li, a + 1, '')],
                            li, 'next', 'kw:next'))
    return out


def _label_edits(prog, stm, want):
    L = prog.lines
    defs = {}       # lower name -> [(li, ti)]
    nums = {}       # text -> [(li, ti)]
    refs = []       # (li, ti, kind, key)
    for li, ln in enumerate(L):
        toks = ln.toks
        if ln.frozen:
            # a frozen line may mention a label in a way we do not see
            if any(t.kind in ('label', 'lineno') for t in toks) or \
                    any(t.kind == 'kw' and t.low in LABEL_REF_KW for t in toks):
                return []
            continue
        for ti, t in enumerate(toks):
            if t.kind == 'label':
                defs.setdefault(t.low, []).append((li, ti))
            elif t.kind == 'lineno':
                nums.setdefault(t.text, []).append((li, ti))
            elif t.kind == 'kw' and t.low in LABEL_REF_KW and ti + 1 < len(toks):
                nx = toks[ti + 1]
                if t.low == 'resume' and nx.kind == 'kw':
                    continue
                if nx.kind == 'id' and nx.text.isalnum():
                    refs.append((li, ti + 1, 'label', nx.low))
                elif nx.kind == 'num' and nx.text.isdigit():
                    refs.append((li, ti + 1, 'lineno', nx.text))
                elif nx.kind not in ('comment',) and nx.text != ':' and \
                        not (nx.kind == 'kw' and nx.low == 'else'):
                    return []     # something we do not understand follows GOTO
    out = []
    used = set(prog.ids)

    def fresh(base):
        k = 0
        while True:
            cand = f'zq{base}{k}' if k else f'zq{base}'
            if cand.lower() not in used and cand.lower() not in KEYWORDS:
                used.add(cand.lower())
                return cand
            k += 1

    if 'label-rename' in want:
        for name, dl in sorted(defs.items()):
            if len(dl) != 1:
                continue          # duplicate definition: not an accepted program anyway
            sites = dl + [(li, ti) for li, ti, k, key in refs if k == 'label' and key == name]
            for vn, new in (('fresh', fresh('lab')), ('short', fresh('')), ('upper', name.upper() + 'X9')):
                if vn == 'upper' and (new.lower() in used or new.lower() in KEYWORDS):
                    continue
                out.append(Edit('label-rename', vn, [('repl', li, ti, new) for li, ti in sites],
                                dl[0][0], 'label', 'refs=%d' % (len(sites) - 1)))
    if 'lineno-renumber' in want and nums:
        if any(len(v) != 1 for v in nums.values()):
            return out
        order = sorted(nums, key=lambda s: (int(s), s))
        if len({int(s) for s in order}) != len(order):
            return out
        taken = {int(s) for s in prog.numbers if s.isdigit()}

        def mapping(vn):
            m = {}
            for r, s in enumerate(order):
                if vn == 'shift':
                    m[s] = str(max(taken) + 1 + 3 * r)
                elif vn == 'reverse':
                    m[s] = str(max(taken) + 7 + (len(order) - r))
            return m
        nref = [(li, ti, key) for li, ti, k, key in refs if k == 'lineno']
        if any(key not in nums and key.lstrip('0') not in nums for _, _, key in nref):
            pass        # dangling reference: the program does not compile anyway
        for vn in ('shift', 'reverse'):
            m = mapping(vn)
            ops = []
            for s, (site,) in nums.items():
                ops.append(('repl', site[0], site[1], m[s]))
            ok = True
            for li, ti, key in nref:
                if key in m:
                    ops.append(('repl', li, ti, m[key]))
                else:
                    ok = False
            if ok:
                out.append(Edit('lineno-renumber', vn, ops, 0, 'lineno', 'n=%d refs=%d' % (len(nums), len(nref))))
    return out
