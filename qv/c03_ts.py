"""C03 (A) - type-state model of one emitted module and its exhaustive
exploration.

Abstract state = (pc, stack) where `stack` is the tuple of tags on the operand
stack since the current routine was entered:

  'RA'            the routine's own return address (base of the activation)
  ('rc', addr)    return address just pushed by `call <routine>` (consumed by
                  the callee's `frame`)
  ('ra', addr)    return address of an active GOSUB
  '%' '&' '!' '#' '$'            a value of that type
  ('%', n) ('&', n)              the same with a known constant (operand
                                 counts, type ids, field offsets are pushed)
  ('@', desc)     a reference; desc = ('s', T) scalar cell | ('r', R, off)
                  cell `off` of a record R | ('a', E) array of E |
                  ('dynslot', E) the *slot* of a dynamic array | ('?',)

The transfer function is written from docs/ISA.md.  Values are forgotten, so
`jz` has both successors; language-level traps (overflow, division by zero,
subscripts, illegal argument, device errors) are not modelled: they end a
path and are no violation.
"""
from . import c03_isa as isa
from .c03_layout import Layout, LayoutError

NUM = '%&!#'
INTEGRAL = '%&'
VAL = '%&!#$'
MAX_GOSUB = 3
TYPE_ID = {1: '%', 2: '&', 3: '!', 4: '#', 5: '$'}


def ty(tag):
    """type class of a tag: one of % & ! # $ @ ra rc RA"""
    if isinstance(tag, str):
        return tag
    return tag[0]


def const(tag):
    if isinstance(tag, tuple) and tag[0] in INTEGRAL:
        return tag[1]
    return None


def shape(stack):
    """types of the expression part (no return addresses, no constants)"""
    return tuple(ty(t) for t in stack if ty(t) not in ('RA', 'ra'))


def gdepth(stack):
    return sum(1 for t in stack if ty(t) == 'ra')


class V(dict):
    """a violation found by the model: kind, pc, op, detail"""


class Routine:
    __slots__ = ('idx', 'name', 'start', 'end', 'p', 'l', 'cells', 'var_at',
                 'nparams', 'entries', 'ok')


class Model:
    def __init__(self, code, listing, n_globals, stmt_starts=None, max_gosub=None):
        self.code = code
        self.max_gosub = MAX_GOSUB if max_gosub is None else max_gosub
        self.dec = isa.Decoded(code)
        self.ins = self.dec.instrs
        self.n = len(code)
        self.stmt_starts = frozenset(stmt_starts) if stmt_starts is not None else None
        self.static_viol = []      # violations that need no exploration
        self.harness = []          # things the harness could not model
        self.routines = []
        self.gcells = None
        self.gvar_at = {}
        self.lay = None
        if self.dec.error:
            kind, pc, oc = self.dec.error
            self.static_viol.append(V(kind=kind, pc=pc, op='?', detail=f'opcode {oc}'))
        try:
            self.lay = Layout(listing)
        except LayoutError as e:
            self.harness.append(f'listing not understood: {e}')
            return
        lay = self.lay
        frames = [pc for pc in self.dec.starts if self.ins[pc][0] == 'frame']
        if len(frames) != len(lay.routines):
            self.harness.append(f'{len(frames)} frame instructions but '
                                f'{len(lay.routines)} routines in the listing')
            return
        try:
            self.gcells, self.gvar_at, _ = lay.segment(lay.globals, 0)
        except LayoutError as e:
            self.harness.append(f'globals: {e}')
            return
        if len(self.gcells) != n_globals:
            self.static_viol.append(V(kind='global-area-size', pc=0, op='globals',
                                      detail=f'module reserves {n_globals} cells, '
                                             f'declarations need {len(self.gcells)}'))
        for i, pc in enumerate(frames):
            r = Routine()
            r.idx = i
            r.name, r.entries = lay.routines[i]
            r.start = pc
            r.end = frames[i + 1] if i + 1 < len(frames) else self.n
            r.p, r.l = self.ins[pc][1]
            r.ok = True
            try:
                r.cells, r.var_at, r.nparams = lay.segment(r.entries, r.p)
            except LayoutError as e:
                r.ok = False
                r.cells, r.var_at, r.nparams = [], {}, 0
                self.static_viol.append(V(kind='frame-params', pc=pc, op='frame',
                                          detail=str(e), params=self.param_kinds(r)))
            if r.ok and r.nparams != r.p:
                self.static_viol.append(V(
                    kind='frame-params', pc=pc, op='frame', params=self.param_kinds(r),
                    detail=f'frame pops {r.p} argument cells for {r.nparams} parameters'))
            if r.ok and len(r.cells) != r.p + r.l:
                self.static_viol.append(V(
                    kind='frame-size', pc=pc, op='frame', params=self.param_kinds(r),
                    detail=f'frame {r.p},{r.l} but declarations need {len(r.cells)} cells'))
            self.routines.append(r)
        self.frame_of = {r.start: r for r in self.routines}
        self.pro_end = frames[0] if frames else self.n
        # exploration results
        self.visited = set()
        self.transitions = 0
        self.viol = []
        self.stats = {'gosub_bound_hits': 0, 'return_without_gosub': 0,
                      'handler_roots': 0, 'ret_drops_gosub': 0}
        self.ops_seen = set()

    # ------------------------------------------------------------------
    def param_kinds(self, r):
        out = []
        lay = self.lay
        for typ, name in r.entries[:r.p]:
            base, dims = typ
            k = lay.elem(base)
            k = k if isinstance(k, str) else 'rec'
            if dims is not None:
                k = 'arr' + k
            out.append(k)
        return ','.join(out)

    def routine_at(self, pc):
        for r in self.routines:
            if r.start <= pc < r.end:
                return r
        return None

    def is_start(self, pc):
        return pc in self.ins

    # ------------------------------------------------------------------
    # the transfer function
    def step(self, pc, stack):
        """-> (actions, violations).  actions:
        ('next', pc, stack) | ('enter', callee, ret_pc, rest_stack) |
        ('exit', 'ret' | ('retv', T)) | ('halt',) | ('end',) |
        ('resume',) | ('bound',) (GOSUB nesting bound: path cut)"""
        ent = self.ins.get(pc)
        if ent is None:
            return [], [V(kind='not-instruction-start', pc=pc, op='?',
                          detail='control reached a non-instruction address')]
        op, args, size = ent
        r = self.routine_at(pc)
        st = list(stack)
        viol = []
        acts = []
        nxt = pc + size
        fam = [op]       # reported op family (type suffix stripped below)

        def bad(kind, detail, **kw):
            viol.append(V(kind=kind, pc=pc, op=fam[0], detail=detail, **kw))

        class Stop(Exception):
            pass

        def pop(want=None, what='operand'):
            """pop one expression entry; want: None any value | string of
            allowed type chars | '@'"""
            if not st:
                bad('underflow', f'{what}: stack empty')
                raise Stop()
            t = st.pop()
            k = ty(t)
            if k == 'RA':
                bad('underflow', f'{what}: pops the routine\'s own return address')
                raise Stop()
            if k in ('ra', 'rc'):
                bad('type-confusion', f'{what}: consumes a return address as an operand')
                raise Stop()
            if want is not None and k not in want:
                bad('type-confusion', f'{what}: needs {want}, finds {k}')
                raise Stop()
            return t

        def go(target_pc, newst=None):
            acts.append(('next', target_pc, tuple(st if newst is None else newst)))

        def fall():
            if nxt == self.n:
                acts.append(('end',))
            elif nxt not in self.ins:
                bad('not-instruction-start', 'fall-through past the code section')
            elif nxt in self.frame_of:
                bad('control-into-routine', 'execution falls into the next routine')
            else:
                go(nxt)

        def jump_target(t, what):
            if t not in self.ins:
                bad('not-instruction-start', f'{what} target {t:#x} is not an instruction start')
                return False
            tr = self.routine_at(t)
            if tr is not r:
                bad('jump-out-of-routine', f'{what} target {t:#x} is in another routine')
                return False
            if t in self.frame_of:
                bad('control-into-routine', f'{what} to a frame instruction')
                return False
            return True

        def seg(scope):
            if scope == 'l':
                if r is None:
                    return None, None
                return r.cells, r.var_at
            return self.gcells, self.gvar_at

        def cell(scope, idx, what):
            cells, _ = seg(scope)
            if cells is None or not (0 <= idx < len(cells)):
                bad('variable-out-of-area',
                    f'{what}: cell {idx} outside the '
                    f'{"frame" if scope == "l" else "global area"} '
                    f'({0 if cells is None else len(cells)} cells)')
                raise Stop()
            return cells[idx]

        def store_into(c, t, what):
            k = ty(t)
            if c[0] == 'v':
                if k != c[1]:
                    bad('store-type', f'{what}: stores {k} into a cell declared {c[1]}')
            elif c[0] == 'dyn':
                if k != '@' or t[1][0] not in ('a', '?') or \
                        (t[1][0] == 'a' and t[1][1] not in (None, c[1])):
                    bad('store-type', f'{what}: stores {self._show(t)} into a dynamic array slot of {c[1]}')
            elif c[0] == 'par':
                bad('store-type', f'{what}: overwrites a parameter cell (reference) with {k}')
            elif c[0] == 'h':
                if k != '&':
                    bad('store-type', f'{what}: stores {k} into an array header cell')
            else:
                bad('store-type', f'{what}: stores into a {c[0]} cell')

        try:
            base = op.rstrip('%&!#$@') if op[-1] in '%&!#$@' else op
            suf = op[len(base):]
            if base.startswith('push') and base not in ('pushrefl', 'pushrefg'):
                fam[0] = 'push'
                t = suf[-1]
                if base == 'push':
                    v = args[0]
                else:
                    v = {'pushm2': -2, 'pushm1': -1, 'push0': 0, 'push1': 1, 'push2': 2}[base]
                st.append((t, int(v)) if t in INTEGRAL else t)
                fall()
            elif base == 'conv':
                fam[0] = 'conv'
                pop(suf[0], 'conv source')
                st.append(suf[1])
                fall()
            elif base in ('readl', 'readg', 'readidxl', 'readidxg'):
                fam[0] = base
                scope = base[-1]
                idx = args[0] + (args[1] if len(args) > 1 else 0)
                c = cell(scope, idx, op)
                if suf == '@':
                    if len(args) > 1:
                        bad('undefined-opcode', 'readidx@ has no executor')
                        raise Stop()
                    if c[0] == 'par':
                        st.append(('@', self.lay.param_refdesc(c[1])))
                    elif c[0] == 'dyn':
                        st.append(('@', ('a', c[1])))
                    else:
                        bad('type-confusion', f'{op}: cell {idx} is declared {c}, not a reference')
                        raise Stop()
                else:
                    if c != ('v', suf):
                        bad('read-type', f'{op}: cell {idx} is declared {c}')
                        if c[0] != 'v':
                            raise Stop()
                    st.append(c[1])
                fall()
            elif base in ('storel', 'storeg', 'storeidxl', 'storeidxg'):
                fam[0] = base
                scope = base[-1]
                idx = args[0] + (args[1] if len(args) > 1 else 0)
                t = pop(None, 'stored value')
                c = cell(scope, idx, op)
                store_into(c, t, op)
                fall()
            elif base in ('pushrefl', 'pushrefg'):
                scope = base[-1]
                cell(scope, args[0], op)
                _, var_at = seg(scope)
                va = var_at.get(args[0])
                if va is None:
                    st.append(('@', ('?',)))
                elif va[0] == 'param':
                    st.append(('@', ('parslot',)))
                else:
                    st.append(('@', self.lay.refdesc(va[1])))
                fall()
            elif base == 'deref':
                fam[0] = 'deref'
                t = pop('@', 'reference')
                ct = self.lay.cell_type_in(t[1])
                if t[1][0] == '?':
                    ct = suf
                if ct != suf:
                    bad('read-type', f'{op}: the reference denotes {self._show(t)}')
                st.append(suf)
                fall()
            elif op == 'storeref':
                rf = pop('@', 'reference')
                t = pop(None, 'stored value')
                if ty(t) == '@':
                    bad('store-type', 'storeref: stores a reference into a variable cell')
                elif rf[1][0] != '?':
                    ct = self.lay.cell_type_in(rf[1])
                    if ct != ty(t):
                        bad('store-type', f'storeref: stores {ty(t)} through a reference to {self._show(rf)}')
                fall()
            elif op == 'refidx':
                i = pop(INTEGRAL, 'offset')
                rf = pop('@', 'reference')
                d = rf[1]
                k = const(i)
                if d[0] == 'r' and k is not None:
                    nd = ('r', d[1], d[2] + k)
                    if self.lay.cell_type_in(nd) is None:
                        bad('variable-out-of-area', f'refidx: offset {d[2] + k} outside record {d[1]}')
                    st.append(('@', nd))
                else:
                    if d[0] != '?':
                        bad('type-confusion', f'refidx on {self._show(rf)} with '
                                              f'{"a computed" if k is None else "an"} offset')
                    st.append(('@', ('?',)))
                fall()
            elif op == 'arridx':
                rf = pop('@', 'array reference')
                for _ in range(args[0]):
                    pop('&', 'subscript')
                d = rf[1]
                if d[0] == 'a':
                    e = d[1]
                    st.append(('@', ('s', e) if isinstance(e, str) else
                               ('?',) if e is None else ('r', e[1], 0)))
                elif d[0] == '?':
                    st.append(('@', ('?',)))
                else:
                    bad('type-confusion', f'arridx on {self._show(rf)}')
                    raise Stop()
                fall()
            elif op == 'allocarr':
                for _ in range(2 * args[0]):
                    pop('&', 'bound')
                st.append(('@', ('a', None)))
                fall()
            elif op in ('initarrl', 'initarrg'):
                scope = op[-1]
                for _ in range(2 * args[1]):
                    pop('&', 'bound')
                cell(scope, args[0], op)
                _, var_at = seg(scope)
                va = var_at.get(args[0])
                okv = False
                if va is not None and va[0] == 'var':
                    b, dims = va[1]
                    if dims and len(dims) == args[1] and len(self.lay.flat(b)) == args[2]:
                        okv = True
                if not okv:
                    bad('store-type', f'{op}: cell {args[0]} does not start a static array of '
                                      f'rank {args[1]} and element size {args[2]}')
                fall()
            elif op in ('lbound', 'ubound'):
                pop('&', 'dimension')
                rf = pop('@', 'array reference')
                if rf[1][0] not in ('a', '?'):
                    bad('type-confusion', f'{op} on {self._show(rf)}')
                st.append('&')
                fall()
            elif op in ('add', 'sub', 'mul', 'exp', 'div', 'idiv', 'mod', 'and', 'or',
                        'xor', 'eqv', 'imp', 'cmp'):
                allowed = {'add': VAL, 'cmp': VAL, 'sub': NUM, 'mul': NUM, 'exp': NUM,
                           'div': NUM}.get(op, INTEGRAL)
                b = pop(allowed, 'right operand')
                a = pop(allowed, 'left operand')
                if ty(a) != ty(b):
                    bad('type-confusion', f'{op}: operand types {ty(a)} and {ty(b)} differ')
                    raise Stop()
                if op == 'cmp':
                    st.append('%')
                elif op == 'div':
                    st.append('!' if ty(a) in INTEGRAL else ty(a))
                else:
                    st.append(ty(a))
                fall()
            elif op in ('neg', 'abs', 'sign'):
                t = pop(NUM)
                st.append(ty(t))
                fall()
            elif op == 'not':
                t = pop(INTEGRAL)
                st.append(ty(t))
                fall()
            elif op in ('eq', 'ne'):
                pop('%')
                st.append('%')
                fall()
            elif op in ('lt', 'le', 'gt', 'ge'):
                pop(NUM)
                st.append('%')
                fall()
            elif op in ('cint', 'clng', 'int'):
                pop(NUM)
                st.append('%' if op == 'cint' else '&')
                fall()
            elif op in ('asc', 'strlen', 'sdbl', 'lcase', 'ucase', 'ltrim', 'rtrim'):
                pop('$')
                st.append({'asc': '%', 'strlen': '&', 'sdbl': '#'}.get(op, '$'))
                fall()
            elif op in ('chr', 'space'):
                pop('%')
                st.append('$')
                fall()
            elif op == 'ntos':
                pop(NUM)
                st.append('$')
                fall()
            elif op in ('strleft', 'strright'):
                pop('%', 'count')
                pop('$', 'string')
                st.append('$')
                fall()
            elif op == 'strmid':
                pop('%&', 'length')
                pop('%', 'start')
                pop('$', 'string')
                st.append('$')
                fall()
            elif op == 'strfind':
                pop('$')
                pop('$')
                pop('&', 'start')
                st.append('&')
                fall()
            elif op == 'strrep':
                pop('%$', 'character')
                pop('%', 'count')
                st.append('$')
                fall()
            elif op == 'pop':
                if not st:
                    bad('underflow', 'pop: stack empty')
                    raise Stop()
                t = st[-1]
                if ty(t) == 'RA':
                    # RETURN <label> with no active GOSUB: a language-level
                    # error the machine has no trap for; unspecified, counted
                    self.stats['return_without_gosub'] += 1
                    raise Stop()
                st.pop()
                fall()
            elif op == 'dupl':
                t = pop(None)
                st.extend([t, t])
                fall()
            elif op == 'swap':
                a = pop(None)
                b = pop(None)
                st.extend([a, b])
                fall()
            elif op == 'swapprev':
                a = pop(None)
                b = pop(None)
                c = pop(None)
                st.extend([b, c, a])
                fall()
            elif op == 'jmp':
                if jump_target(args[0], 'jmp'):
                    go(args[0])
            elif op == 'jz':
                pop('%', 'condition')
                if jump_target(args[0], 'jz'):
                    go(args[0])
                fall()
            elif op == 'call':
                t = args[0]
                if t not in self.ins:
                    bad('not-instruction-start', f'call target {t:#x} is not an instruction start')
                elif t in self.frame_of:
                    st.append(('rc', nxt))
                    go(t)
                else:
                    if jump_target(t, 'gosub'):
                        if shape(st):
                            bad('stack-at-boundary', 'GOSUB with a non-empty expression stack')
                        if gdepth(st) >= self.max_gosub:
                            self.stats['gosub_bound_hits'] += 1
                            acts.append(('bound',))
                        else:
                            st.append(('ra', nxt))
                            go(t)
            elif op == 'frame':
                callee = self.frame_of[pc]
                if not st or ty(st[-1]) != 'rc':
                    bad('control-into-routine', 'frame reached other than by call')
                    raise Stop()
                ret = st.pop()[1]
                ptypes = [c[1] for c in callee.cells[:callee.p] if c[0] == 'par'] \
                    if callee.ok else []
                argtags = []
                for i in range(callee.p):
                    if not st or ty(st[-1]) in ('RA', 'ra', 'rc'):
                        bad('call-args', f'frame pops {callee.p} arguments, only {i} were pushed',
                            params=self.param_kinds(callee))
                        raise Stop()
                    argtags.append(st.pop())
                argtags.reverse()
                if callee.ok and callee.nparams == callee.p:
                    for i, (t, pt) in enumerate(zip(argtags, ptypes)):
                        msg = self._arg_ok(t, pt)
                        if msg:
                            bad('call-args', f'argument {i + 1}: {msg}',
                                params=self.param_kinds(callee),
                                arg=t[1][0] if ty(t) == '@' else ty(t))
                acts.append(('enter', pc, ret, tuple(st)))
            elif op == 'ret':
                # the machine drops whatever lies above the routine's own
                # return address (return addresses of GOSUBs that are still
                # active) - bound to the real CPU by the monitor, which
                # checks where every concrete ret/retv lands.  Expression
                # entries left at a return are still a fault of the code.
                if not st or st[0] != 'RA' or shape(st):
                    bad('stack-at-return', f'ret with stack {self._shows(st)}')
                else:
                    if gdepth(st):
                        self.stats['ret_drops_gosub'] += 1
                    acts.append(('exit', 'ret'))
            elif op == 'retv':
                if len(st) < 2 or st[0] != 'RA' or ty(st[-1]) not in VAL or shape(st[:-1]):
                    bad('stack-at-return', f'retv with stack {self._shows(st)}')
                else:
                    if gdepth(st):
                        self.stats['ret_drops_gosub'] += 1
                    acts.append(('exit', ('retv', ty(st[-1]))))
            elif op == 'ijmp':
                if not st:
                    bad('underflow', 'ijmp: stack empty')
                    raise Stop()
                t = st[-1]
                if ty(t) == 'ra':
                    st.pop()
                    if t[1] in self.ins:
                        go(t[1])
                    else:
                        bad('not-instruction-start', 'ijmp target')
                elif ty(t) == 'RA':
                    # RETURN with no active GOSUB (see `pop` above)
                    self.stats['return_without_gosub'] += 1
                else:
                    bad('type-confusion', f'ijmp: finds {ty(t)} instead of a return address')
            elif op == 'halt':
                acts.append(('halt',))
            elif op == 'io':
                fam[0] = 'io ' + isa.DEVICES.get(tuple(args), '?')
                self._io(args, pop, st, bad, Stop)
                fall()
            elif op == 'errhand':
                t = args[0]
                if t not in (0, 1):
                    if t not in self.ins:
                        bad('not-instruction-start', 'errhand target is not an instruction start')
                    elif t in self.frame_of:
                        bad('control-into-routine', 'errhand target is a frame instruction')
                fall()
            elif op == 'errget':
                st.append('%')
                fall()
            elif op in ('errres', 'errresn'):
                acts.append(('resume',))
            else:
                bad('undefined-opcode', f'{op} has no executor in the machine')
        except Stop:
            pass
        for v in viol:
            v['op'] = fam[0]
        return acts, viol

    def _io(self, args, pop, st, bad, Stop):
        name = isa.DEVICES.get(tuple(args))
        if name is None:
            bad('undefined-opcode', f'io {args}: unknown device operation')
            raise Stop()
        if name == 'terminal.print':
            n = const(pop('%', 'print item count'))
            if n is None:
                bad('type-confusion', 'print: the item count is not a pushed constant')
                raise Stop()
            items = [pop(None, 'print item') for _ in range(n)]
            items.reverse()
            i = 0
            while i < len(items):
                c = const(items[i]) if ty(items[i]) == '%' else None
                if c == 0 or c == 3:
                    if i + 1 >= len(items):
                        bad('type-confusion', 'print: item tag without a value')
                        raise Stop()
                    v = ty(items[i + 1])
                    if v not in (VAL if c == 0 else '$'):
                        bad('type-confusion', f'print: value of kind {v}')
                    i += 2
                elif c in (1, 2):
                    i += 1
                else:
                    bad('type-confusion', f'print: item tag {self._show(items[i])}')
                    raise Stop()
        elif name == 'terminal.input':
            n = const(pop('%', 'input variable count'))
            if n is None or n <= 0:
                bad('type-confusion', f'input: variable count {n}')
                raise Stop()
            ids = []
            for _ in range(n):
                k = const(pop('%', 'input type id'))
                if k not in TYPE_ID:
                    bad('type-confusion', f'input: type id {k}')
                    raise Stop()
                ids.append(k)
            ids.reverse()                  # ids[0] = first variable
            pop('%', 'question flag')
            pop('$', 'prompt')
            pop('%', 'same-line flag')
            for k in reversed(ids):        # first variable ends on top
                st.append(TYPE_ID[k])
        elif name == 'data.read':
            k = const(pop('%', 'read type id'))
            if k not in TYPE_ID:
                bad('type-confusion', f'read: type id {k}')
                raise Stop()
            st.append(TYPE_ID[k])
        else:
            sig = {
                'terminal.cls': ('', ''), 'terminal.color': ('%%%', ''),
                'terminal.view_print': ('%%', ''), 'terminal.set_mode': ('%%%%', ''),
                'terminal.width': ('%%', ''), 'terminal.locate': ('%%%%%', ''),
                'terminal.inkey': ('', '$'), 'pcspkr.beep': ('', ''),
                'pcspkr.play': ('$', ''), 'pcspkr.sound': ('%&', ''),
                'time.get_time': ('', '!'), 'rng.seed': ('!', ''), 'rng.rnd': ('!', '!'),
                'memory.poke': ('&%', ''), 'memory.peek': ('&', '%'),
                'memory.set_segment': ('&', ''), 'memory.set_default_segment': ('', ''),
                'memory.bsave': ('$&&', ''), 'memory.bload': ('$&', ''),
                'data.restore': ('%', ''), 'fs.kill': ('$', ''),
            }[name]
            for t in reversed(sig[0]):
                pop(t, name + ' argument')
            st.extend(sig[1])

    def _arg_ok(self, t, ptyp):
        """None if tag t is an acceptable argument for a parameter declared ptyp"""
        lay = self.lay
        base, dims = ptyp
        e = lay.elem(base)
        k = ty(t)
        if dims is not None:
            if k != '@' or t[1][0] not in ('a', '?') or \
                    (t[1][0] == 'a' and t[1][1] not in (None, e)):
                return f'{self._show(t)} passed for an array of {base}'
            return None
        if isinstance(e, str):
            if k == e:
                return None
            if k == '@':
                d = t[1]
                if d[0] == '?' or lay.cell_type_in(d) == e:
                    return None
            return f'{self._show(t)} passed for a parameter declared {base}'
        if k == '@':
            d = t[1]
            if d[0] == '?':
                return None
            if d[0] == 'r':
                f = lay.flat(d[1])
                want = lay.flat(base)
                if f[d[2]:d[2] + len(want)] == want:
                    return None
        return f'{self._show(t)} passed for a record parameter {base}'

    @staticmethod
    def _show(t):
        if isinstance(t, str):
            return t
        if t[0] == '@':
            return '@' + ':'.join(str(x) for x in t[1])
        return f'{t[0]}={t[1]}'

    def _shows(self, st):
        return '[' + ' '.join(self._show(t) for t in st) + ']'

    # ------------------------------------------------------------------
    def at_boundary(self, pc, stack):
        """violation if pc is a statement start and the expression stack is
        not empty"""
        if self.stmt_starts is not None and pc in self.stmt_starts and shape(stack):
            return V(kind='stack-at-boundary', pc=pc, op=self.ins[pc][0] if pc in self.ins else '?',
                     detail=f'statement starts with stack {self._shows(stack)}')
        return None

    def explore(self, max_states=400000):
        """exhaustive search from the module entry, every routine entry and
        every error-handler entry"""
        if self.harness:
            return
        work = []
        visited = self.visited
        shapes = {}
        exits = {r.start: set() for r in self.routines}
        callers = {r.start: [] for r in self.routines}
        seen_viol = set()

        def report(v):
            key = (v['kind'], v['pc'], v['detail'])
            if key not in seen_viol:
                seen_viol.add(key)
                self.viol.append(v)

        def push(pc, stack):
            s = (pc, stack)
            if s in visited:
                return
            visited.add(s)
            if pc in self.frame_of:
                work.append(s)
                return
            sh = shape(stack)
            old = shapes.setdefault(pc, sh)
            if old != sh:
                report(V(kind='stack-merge', pc=pc, op=self.ins[pc][0] if pc in self.ins else '?',
                         detail=f'reached with expression stacks {list(old)} and {list(sh)}'))
            b = self.at_boundary(pc, stack)
            if b:
                report(b)
            work.append(s)

        for v in self.static_viol:
            report(v)
        if 0 in self.ins:
            push(0, ())
        for r in self.routines:
            push(r.start + self.ins[r.start][2], ('RA',))
        handlers = []
        for pc in self.dec.starts:
            op, args, _ = self.ins[pc]
            if op == 'errhand' and args[0] not in (0, 1) and args[0] in self.ins \
                    and args[0] not in self.frame_of and args[0] not in handlers:
                handlers.append(args[0])
        self.stats['handler_roots'] += len(handlers)
        hroots = set()
        while True:
            while work:
                if len(visited) > max_states:
                    self.harness.append('state bound exceeded')
                    return
                pc, stack = work.pop()
                self.ops_seen.add(self.ins[pc][0] if pc in self.ins else '?')
                acts, viol = self.step(pc, stack)
                for v in viol:
                    report(v)
                r = self.routine_at(pc)
                for a in acts:
                    self.transitions += 1
                    if a[0] == 'next':
                        push(a[1], a[2])
                    elif a[0] == 'enter':
                        callee, ret, rest = a[1], a[2], a[3]
                        cont = (ret, rest)
                        if cont not in callers[callee]:
                            callers[callee].append(cont)
                            for ex in exits[callee]:
                                self._return_to(cont, ex, push, report)
                    elif a[0] == 'exit':
                        if r is None:
                            continue
                        ex = a[1]
                        if ex not in exits[r.start]:
                            exits[r.start].add(ex)
                            for cont in callers[r.start]:
                                self._return_to(cont, ex, push, report)
            # error-handler entries: an error may be dispatched at any
            # instruction of the handler's own routine, i.e. under every
            # control stack (own return address + active GOSUBs) reached
            # there; the expression stack is taken as empty (what a dispatch
            # in the middle of an expression leaves behind is judged by the
            # concrete monitor only)
            if not handlers:
                break
            new = False
            for h in handlers:
                hr = self.routine_at(h)
                if hr is None:
                    continue
                for (pc, stack) in list(visited):
                    if not (hr.start < pc < hr.end):
                        continue
                    cs = tuple(t for t in stack if ty(t) in ('RA', 'ra'))
                    if cs and (h, cs) not in hroots:
                        hroots.add((h, cs))
                        push(h, cs)
                        new = True
            if not new and not work:
                break
        self.exits = exits

    def _return_to(self, cont, ex, push, report):
        ret, rest = cont
        if ret not in self.ins:
            report(V(kind='not-instruction-start', pc=ret, op='ret', detail='return address'))
            return
        if ex == 'ret':
            push(ret, rest)
        else:
            push(ret, rest + (ex[1],))
