"""C02 (c) - WX, the window explorer for the peephole pass.

A real compilation context is obtained by compiling a small BASIC program with
the real compiler at O0; everything after its `frame` instruction is dropped
and replaced by  prologue + window + epilogue  through the `QvmCode.add`
surface that tests/test_qvm_code.py pins.  The instruction tuples for variable
access are *copied from what the compiler itself emitted* for `x% = x%` etc.,
so no naming convention of the code generator is assumed.

The module is executed on the real CPU before and after `QvmCode.optimize()`
and the two observations are compared.
"""
from . import impl

BASE_SRC = ('DIM SHARED g AS LONG\n'
            'DIM SHARED h AS INTEGER\n'
            'x% = x%\n'
            'y& = y&\n'
            'm% = m%\n'
            'g = g\n'
            'h = h\n')

# slots in the order the base program touches them
SLOTS = ['x', 'y', 'm', 'g', 'h']
SLOT_TYPE = {'x': '%', 'y': '&', 'm': '%', 'g': '&', 'h': '%'}

PUSH_VALUES = {
    '%': [0, 3, -32768],
    '&': [0, 3, 70000],
    '!': [0.5, 2.5, 1e10],
    '#': [0.1, 2.5, 1e39],
    '$': ['"a"'],
}
PUSH_VALUES_T = {
    '%': [0, 3, -1, 32767, -32768],
    '&': [0, 3, 70000, -2147483648],
    '!': [0.0, 0.5, 2.5, 1e10, 3e38],
    '#': [0.1, 2.5, 3e9, 1e39],
    '$': ['"a"', '""'],
}
PUSH_VALUES_C = {
    '%': [0, 3, -32768],
    '&': [3, 70000],
    '!': [2.5, 1e10],
    '#': [0.1, 1e39],
    '$': ['"a"'],
}
CONVS = [a + b for a in '%&!#' for b in '%&!#' if a != b]
UNARY = ['not', 'neg']
BINARY = ['add', 'sub', 'mul', 'div', 'idiv', 'mod', 'exp', 'and', 'or',
          'xor', 'eqv', 'imp']
PSEUDO = ['_label', '_dbg_info_start', '_dbg_info_end', '_empty_block']


def alphabet(level):
    """symbolic alphabet: tuples that `materialise` turns into instruction
    tuples for a context.  level: 'q' (quick), 't' (thorough, all lengths up
    to 3), 'c' (core alphabet for the longest windows)"""
    pv = {'q': PUSH_VALUES, 't': PUSH_VALUES_T, 'c': PUSH_VALUES_C}[level]
    a = []
    for t in '%&!#$':
        for v in pv[t]:
            a.append(('push', t, v))
    convs = CONVS if level != 'c' else ['%&', '&%', '&!', '!%', '!&', '!#', '#!', '#&']
    for c in convs:
        a.append(('conv', c))
    names = ['x', 'y', 'g', 'h'] if level != 'c' else ['x', 'g']
    for n in names:
        a.append(('read', n))
        a.append(('store', n))
    for u in UNARY:
        a.append(('op', u))
    binary = BINARY if level != 'c' else ['add', 'mul', 'div', 'idiv', 'exp', 'and', 'imp']
    for b in binary:
        a.append(('op', b))
    a.append(('jmp',))
    a.append(('jz',))
    a.append(('op', 'ret'))
    a.append(('op', 'halt'))
    if level != 'c':
        a.append(('op', 'nop'))
        a.append(('op', 'pop'))
    a.append(('label',))
    a.append(('dbgs',))
    a.append(('dbge',))
    if level != 'c':
        a.append(('empty',))
    return a


def sym_text(s):
    k = s[0]
    if k == 'push':
        return f'push{s[1]} {s[2]}'
    if k == 'conv':
        return 'conv' + s[1]
    if k in ('read', 'store'):
        return f'{k} {s[1]}'
    if k == 'op':
        return s[1]
    return {'jmp': 'jmp END', 'jz': 'jz END', 'label': '_label', 'dbgs': '_dbg_info_start',
            'dbge': '_dbg_info_end', 'empty': '_empty_block'}[k]


def sym_class(s):
    """value-free class of a symbol (for violation features)"""
    k = s[0]
    if k == 'push':
        return 'push' + s[1]
    if k in ('read', 'store'):
        return k + ('l' if s[1] in ('x', 'y', 'm') else 'g')
    return sym_text(s).split()[0]


def needs_dbg(window):
    return any(s[0] in ('dbgs', 'dbge', 'empty') for s in window)


class Ctx:
    """one compilation context (plain or -g) that windows are assembled in"""

    def __init__(self, dbg):
        self.dbg = dbg
        for _ in range(3):   # a spurious timeout on an overloaded machine must not end the run
            r = impl.compile_text(BASE_SRC, 0, dbg, limit=60.0, want_listing=False)
            if r.kind != 'timeout':
                break
        if not r.ok:
            raise RuntimeError('WX base program does not compile: ' + r.brief())
        self.code = code = r.code
        finals = [tuple(i.final) for i in code._instrs]
        ops = [f[0] for f in finals]
        if 'frame' not in ops:
            raise RuntimeError('WX: no frame instruction in the base program')
        cut = ops.index('frame') + 1
        reads = [f for f in finals if f[0].startswith(('readl', 'readg'))]
        stores = [f for f in finals if f[0].startswith(('storel', 'storeg'))]
        if len(reads) != 5 or len(stores) != 5:
            raise RuntimeError('WX: unexpected code shape for the base program')
        self.read = dict(zip(SLOTS, reads))
        self.store = dict(zip(SLOTS, stores))
        self.nodes = []
        if dbg:
            for ins in code._instrs[cut:]:
                if ins.final[0] == '_dbg_info_start':
                    self.nodes.append(ins.args[0])
            if len(self.nodes) < 2:
                raise RuntimeError('WX: no statement nodes in the -g base program')
        del code._instrs[cut:]
        self.base = [tuple(i.final) for i in code._instrs]
        self.cut = cut
        code.add_string_literal('a')
        code.add_string_literal('')
        self.prologue = []
        init = {'x': ('push%', 5), 'y': ('push&', 100000), 'm': ('push%', 0),
                'g': ('push&', 7), 'h': ('push%', -2)}
        for n in SLOTS:
            self.prologue += [init[n], self.store[n]]
        self.epilogue = [('push%', 77), self.store['m'], ('_label', 'wx_end'), ('halt',)]

    def materialise(self, window):
        out = []
        depth = 0
        for i, s in enumerate(window):
            k = s[0]
            if k == 'push':
                out.append(('push' + s[1], s[2]))
            elif k == 'conv':
                out.append(('conv' + s[1],))
            elif k == 'read':
                out.append(self.read[s[1]])
            elif k == 'store':
                out.append(self.store[s[1]])
            elif k == 'op':
                out.append((s[1],))
            elif k == 'jmp':
                out.append(('jmp', 'wx_end'))
            elif k == 'jz':
                out.append(('jz', 'wx_end'))
            elif k == 'label':
                out.append(('_label', f'wx_l{i}'))
            elif k == 'dbgs':
                out.append(('_dbg_info_start', self.nodes[min(depth, len(self.nodes) - 1)]))
                depth += 1
            elif k == 'dbge':
                depth -= 1
                if depth < 0:
                    return None   # unbalanced: cannot be assembled
                out.append(('_dbg_info_end', self.nodes[min(depth, len(self.nodes) - 1)]))
            elif k == 'empty':
                out.append(('_empty_block',))
        return out

    def build(self, window):
        """-> True if the code object now holds prologue+window+epilogue"""
        code = self.code
        del code._instrs[self.cut:]
        if [tuple(i.final) for i in code._instrs] != self.base:
            raise RuntimeError('WX: context damaged')
        mat = self.materialise(window)
        if mat is None:
            return False
        code.add(*self.prologue)
        code.add(*mat)
        code.add(*self.epilogue)
        return True

    def shape(self):
        return [str(i).strip() if not str(i).startswith('_dbg') else str(i).split()[0]
                for i in self.code._instrs[self.cut:]]


def _cells(seg):
    out = []
    try:
        cells = seg.cells
    except AttributeError:
        return None
    for c in cells:
        if c is None:
            out.append(None)
        else:
            t = getattr(getattr(c, 'type', None), 'name', None)
            out.append((t, repr(getattr(c, 'value', c))))
    return out


def observe(binary, dbg):
    """run a module, -> observation dict (JSON-able)"""
    try:
        mod = impl.load(binary)
    except Exception as e:   # loader rejected
        return {'end': 'noload', 'exc': type(e).__name__}
    env = impl.Env()
    out, m = impl.run_module(mod, env, horizon=2000)
    cpu = m.cpu
    obs = {'end': out.end, 'trap': out.trap, 'exc': out.exc,
           'stack': [(getattr(c.type, 'name', None), repr(c.value)) if hasattr(c, 'type') else repr(c)
                     for c in cpu.stack],
           'locals': _cells(cpu.cur_frame) if cpu.cur_frame is not None else None,
           'globals': _cells(cpu.globals_segment),
           'events': impl.jsonable(out.events)}
    if dbg and out.end == 'trap':
        obs['stmt'] = stmt_at(mod, cpu, out.trapped_addr)
    return obs


def stmt_at(mod, cpu, addr):
    """source extent of the statement the debug info maps addr to"""
    di = mod.debug_info
    if di is None or addr is None:
        return None
    st = None
    try:
        try:
            st = di.find_stmt(addr, cpu)
        except TypeError:
            st = di.find_stmt(addr)
    except Exception as e:
        return 'exc:' + type(e).__name__
    if st is None:
        return None
    return (getattr(st, 'source_start_line', None), getattr(st, 'source_start_col', None))


def admissible(obs):
    if obs['end'] in ('hostexc', 'noload', 'horizon', 'exhausted'):
        return False
    if obs['end'] == 'trap' and obs['trap'] in impl.MACHINE_FAULTS:
        return False
    return True


def diff(o0, o1):
    """-> list of divergence names"""
    d = []
    if (o0['end'], o0['exc']) != (o1['end'], o1['exc']):
        d.append('halt')
    if o0['trap'] != o1['trap']:
        d.append('trap')
    for k in ('stack', 'locals', 'globals', 'events'):
        if o0[k] != o1[k]:
            d.append(k)
    if o0.get('stmt') != o1.get('stmt'):
        d.append('trap-position')
    return d


class Result:
    __slots__ = ('status', 'obs0', 'obs1', 'div', 'before', 'after', 'detail')

    def __init__(self, status, **kw):
        self.status = status
        for s in self.__slots__[1:]:
            setattr(self, s, kw.get(s))


def evaluate(ctx, window, want_shapes=False):
    """status: 'noasm' | 'inadmissible' | 'unchanged' | 'equal' | 'violation'"""
    try:
        if not ctx.build(window):
            return Result('noasm')
        b0 = bytes(ctx.code)
    except RuntimeError:
        raise
    except Exception as e:
        return Result('noasm', detail=type(e).__name__)
    before = ctx.shape() if want_shapes else None
    n0 = len(ctx.code._instrs)
    o0 = observe(b0, ctx.dbg)
    if not admissible(o0):
        return Result('inadmissible', obs0=o0, before=before)
    try:
        with impl.time_limit(10.0):
            ctx.code.optimize()
    except impl.Timeout:
        return Result('violation', obs0=o0, div=['optimize-timeout'], before=before)
    except Exception as e:
        return Result('violation', obs0=o0, div=['optimize-crash'], before=before,
                      detail=f'{type(e).__name__}: {str(e)[:120]} in {impl._where(e.__traceback__)}')
    after = ctx.shape() if want_shapes else None
    try:
        b1 = bytes(ctx.code)
    except Exception as e:
        return Result('violation', obs0=o0, div=['assemble-crash'], before=before, after=after,
                      detail=f'{type(e).__name__}: {str(e)[:120]} in {impl._where(e.__traceback__)}')
    if b1 == b0 and len(ctx.code._instrs) == n0:
        return Result('unchanged', obs0=o0, before=before, after=after)
    o1 = observe(b1, ctx.dbg)
    d = diff(o0, o1)
    if d:
        return Result('violation', obs0=o0, obs1=o1, div=d, before=before, after=after)
    return Result('equal', obs0=o0, obs1=o1, before=before, after=after)


_ctx = {}


def ctx_for(window):
    dbg = needs_dbg(window)
    c = _ctx.get(dbg)
    if c is None:
        c = _ctx[dbg] = Ctx(dbg)
    return c


def minimise(window, div):
    """drop instructions while the same divergence persists"""
    w = list(window)
    changed = True
    while changed and len(w) > 1:
        changed = False
        for i in range(len(w)):
            cand = w[:i] + w[i + 1:]
            r = evaluate(ctx_for(cand), cand)
            if r.status == 'violation':
                w = cand
                changed = True
                break
    return w


def explore(prefix, alpha, maxlen, st, viol, count_from=1):
    """DFS below `prefix` (a list of symbols).  Extensions of a window whose
    unoptimised run ends in a machine-level fault are all inadmissible (the
    fault is reached before anything that follows), so they are pruned."""
    stack = [list(prefix)]
    while stack:
        w = stack.pop()
        r = evaluate(ctx_for(w), w)
        if len(w) >= count_from:
            st['evaluations'] += 1
            st['by_len'][len(w)] = st['by_len'].get(len(w), 0) + 1
            st['status'][r.status] = st['status'].get(r.status, 0) + 1
            if r.status in ('equal', 'violation'):
                st['changed'] += 1
                st['outcomes'].add((r.obs0['end'], r.obs0['trap']))
            if r.status == 'violation':
                viol.append(make_violation(w, r))
        if r.status in ('noasm', 'inadmissible'):
            # 'noasm' because of an unbalanced _dbg_info_end: no extension can repair it
            continue
        if len(w) < maxlen:
            for s in reversed(alpha):
                stack.append(w + [s])


def _unsigned_zero(obs):
    """the observation with every floating negative zero replaced by zero"""
    def fix(cells):
        if cells is None:
            return None
        return [(c[0], '0.0' if c[1] == '-0.0' else c[1]) if isinstance(c, (tuple, list)) and len(c) == 2 else c
                for c in cells]
    return {k: (fix(v) if k in ('stack', 'locals', 'globals') else v) for k, v in obs.items()}


def make_violation(w, r):
    mw = minimise(w, r.div)
    mr = evaluate(ctx_for(mw), mw, want_shapes=True)
    if mr.status != 'violation':
        mw, mr = w, evaluate(ctx_for(w), w, want_shapes=True)
    div = '+'.join(mr.div or r.div)
    if mr.obs1 is not None and set(mr.div or ()) <= {'stack', 'locals', 'globals'} and \
            _unsigned_zero(mr.obs0) == _unsigned_zero(mr.obs1):
        div = 'sign-of-zero'
    feat = {'family': 'windows', 'divergence': div,
            'ops': ' '.join(sym_class(s) for s in mw)}
    case = {'kind': 'window', 'window': [list(s) for s in mw], 'text': [sym_text(s) for s in mw],
            'original': [sym_text(s) for s in w], 'before': mr.before, 'after': mr.after,
            'detail': mr.detail}
    return (feat, case, impl.jsonable(mr.obs0), impl.jsonable(mr.obs1) if mr.obs1 else mr.detail,
            len(mw))


def worker(chunk, maxlen_by_level):
    """chunk items: (level, prefix, extend)"""
    viol = []
    st = {'evaluations': 0, 'changed': 0, 'by_len': {}, 'status': {}, 'outcomes': set()}
    for level, prefix, extend in chunk:
        alpha = alphabet(level)
        prefix = [tuple(s) for s in prefix]
        if not extend:
            explore(prefix, alpha, len(prefix), st, viol)
            continue
        # the parent of the prefix must be admissible, else the prefix is pruned
        ok = True
        for k in range(1, len(prefix)):
            r = evaluate(ctx_for(prefix[:k]), prefix[:k])
            if r.status in ('noasm', 'inadmissible'):
                ok = False
                break
        if ok:
            mx, cf = maxlen_by_level[level]
            explore(prefix, alpha, mx, st, viol, cf)
    out = {'wx_evaluations': st['evaluations'], 'wx_changed': st['changed'],
           'wx_by_len': {str(k): v for k, v in st['by_len'].items()},
           'wx_status': st['status'], 'wx_outcomes': st['outcomes']}
    return viol, out


def items(tier):
    """work items; windows are visited in an order that keeps each worker's
    prefixes together.  quick: alphabet 'q' up to length 3; thorough:
    alphabet 't' up to 3 plus core alphabet 'c' at length 4 exactly (shorter
    windows over 'c' are a subset of 't')."""
    out = []
    lv = 'q' if tier == 'quick' else 't'
    a = alphabet(lv)
    for s in a:
        out.append((lv, [s], False))
    for s in a:
        for t in a:
            out.append((lv, [s, t], True))
    if tier == 'thorough':
        c = alphabet('c')
        for s in c:
            for t in c:
                out.append(('c', [s, t], True))
    return out
