"""E1 - adapters to the real qbee / qvm code (imported from $QBEE_REPO).

Everything that touches the implementation goes through this module so
that the checks depend only on the command-line-level API (DESIGN 2.8).
"""
import contextlib
import copy
import io
import os
import pickle
import signal
import sys
import traceback

REPO = os.environ.get('QBEE_REPO', '/repo')
if REPO not in sys.path:
    sys.path.insert(0, REPO)

from qbee import qvm_codegen  # noqa: F401  (registers the code generator)
from qbee.compiler import Compiler
from qbee.exceptions import SyntaxError as QSyntaxError, CompileError
import qbee.parser as _qparser
from qvm.module import QModule
from qvm.machine import QvmMachine
from qvm.cpu import HaltReason
from qvm.cell import CellType, CellValue
from qvm.trap import TrapCode
from qvm.exceptions import DeviceError
from qvm.instrs import op_code_to_instr

CONFIGS = [(o, g) for o in (0, 1, 2) for g in (False, True)]


# ---------------------------------------------------------------------------
# time limits

class Timeout(BaseException):
    pass


def _alarm(signum, frame):
    raise Timeout()


@contextlib.contextmanager
def time_limit(seconds):
    """limit = `seconds` of CPU time of this process (ITIMER_PROF), so that the
    verdict does not depend on how busy the machine is; a wall-clock backstop of
    30 x seconds catches code that blocks without using the CPU"""
    old = signal.signal(signal.SIGALRM, _alarm)
    oldp = signal.signal(signal.SIGPROF, _alarm)
    signal.setitimer(signal.ITIMER_PROF, seconds)
    signal.setitimer(signal.ITIMER_REAL, seconds * 30)
    try:
        yield
    finally:
        signal.setitimer(signal.ITIMER_PROF, 0)
        signal.setitimer(signal.ITIMER_REAL, 0)
        signal.signal(signal.SIGPROF, oldp)
        signal.signal(signal.SIGALRM, old)


class _DevNull(io.TextIOBase):
    def write(self, s):
        return len(s)


DEVNULL = _DevNull()


@contextlib.contextmanager
def quiet():
    old = sys.stdout
    sys.stdout = DEVNULL
    try:
        yield
    finally:
        sys.stdout = old


# ---------------------------------------------------------------------------
# parse cache (DESIGN 2.4)

class _LineRuleProxy:
    def __init__(self, real):
        self.real = real
        self.cache = {}
        self.hits = 0
        self.misses = 0

    def parse_string(self, line, parse_all=True):
        ent = self.cache.get(line)
        if ent is None:
            self.misses += 1
            try:
                res = self.real.parse_string(line, parse_all=parse_all)
                try:
                    ent = (True, pickle.dumps(res[0], -1))
                except Exception:
                    # not picklable: do not cache this line
                    return res
            except Timeout:
                raise
            except Exception as e:
                try:
                    ent = (False, pickle.dumps(e, -1))
                    pickle.loads(ent[1])
                except Exception:
                    raise e
            if len(self.cache) > 200000:
                self.cache.clear()
            self.cache[line] = ent
        else:
            self.hits += 1
        if ent[0]:
            return [pickle.loads(ent[1])]
        raise pickle.loads(ent[1])

    def __getattr__(self, name):
        return getattr(self.real, name)


_proxy = None


def parse_cache(on=True):
    """Install / remove the per-line parse memo.  Returns True if active."""
    global _proxy
    real = getattr(_qparser, 'line_rule', None)
    if real is None:
        return False
    if on:
        if isinstance(real, _LineRuleProxy):
            return True
        _proxy = _LineRuleProxy(real)
        _qparser.line_rule = _proxy
        return True
    if isinstance(real, _LineRuleProxy):
        _qparser.line_rule = real.real
    return False


def parse_cache_stats():
    p = getattr(_qparser, 'line_rule', None)
    if isinstance(p, _LineRuleProxy):
        return {'hits': p.hits, 'misses': p.misses}
    return None


# ---------------------------------------------------------------------------
# compilation

def _where(tb):
    """innermost frame inside qbee/ or qvm/ as 'file:function'."""
    best = None
    for fs in traceback.extract_tb(tb):
        fn = fs.filename
        if '/qbee/' in fn or '/qvm/' in fn:
            best = f'{os.path.basename(fn)}:{fs.name}'
    return best


class CompileResult:
    """kind: ok | syntax | compile | crash | timeout"""
    __slots__ = ('kind', 'code', 'binary', 'listing', 'err_code', 'loc',
                 'msg', 'exc', 'where', 'stage')

    def __init__(self, kind, **kw):
        self.kind = kind
        for s in self.__slots__[1:]:
            setattr(self, s, kw.get(s))

    @property
    def ok(self):
        return self.kind == 'ok'

    @property
    def rejected(self):
        return self.kind in ('syntax', 'compile')

    def verdict(self):
        if self.kind == 'ok':
            return ('ok',)
        if self.kind == 'syntax':
            return ('syntax', self.loc)
        if self.kind == 'compile':
            return ('compile', self.err_code, self.loc)
        if self.kind == 'crash':
            return ('crash', self.exc, self.stage)
        return (self.kind,)

    def brief(self):
        if self.kind == 'ok':
            return 'ok'
        if self.kind == 'syntax':
            return f'SyntaxError@{self.loc}: {self.msg}'
        if self.kind == 'compile':
            return f'CompileError[{self.err_code}]@{self.loc}: {self.msg}'
        if self.kind == 'crash':
            return f'crash {self.exc} in {self.where} during {self.stage}: {self.msg}'
        return self.kind


def compile_text(src, opt=0, dbg=False, limit=20.0, want_listing=True, retry=True):
    """Compile with the real compiler; never raises (except KeyboardInterrupt).
    A compile that exceeds `limit` (CPU seconds) is repeated once with ten times
    the limit before it is called a timeout: on a busy machine the first compile
    of a worker (grammar construction, allocator contention) can exceed a limit
    that any real non-termination exceeds by orders of magnitude."""
    r = _compile_text(src, opt, dbg, limit, want_listing)
    if r.kind == 'timeout' and retry:
        r = _compile_text(src, opt, dbg, limit * 10, want_listing)
    return r


def _compile_text(src, opt, dbg, limit, want_listing):
    stage = 'compile'
    try:
        with time_limit(limit):
            comp = Compiler(codegen_name='qvm', optimization_level=opt,
                            debug_info=dbg)
            code = comp.compile(src)
            stage = 'bytes'
            binary = bytes(code)
            listing = None
            if want_listing:
                stage = 'listing'
                listing = str(code)
        return CompileResult('ok', code=code, binary=binary, listing=listing)
    except Timeout:
        return CompileResult('timeout', stage=stage)
    except QSyntaxError as e:
        if stage != 'compile':
            return CompileResult('crash', exc='SyntaxError', stage=stage,
                                 msg=str(e), where=_where(e.__traceback__))
        return CompileResult('syntax', loc=getattr(e, 'loc_start', None),
                             msg=str(e))
    except CompileError as e:
        if stage != 'compile':
            return CompileResult('crash', exc='CompileError', stage=stage,
                                 msg=str(e), where=_where(e.__traceback__))
        return CompileResult('compile', loc=getattr(e, 'loc_start', None),
                             err_code=getattr(e.code, 'name', str(e.code)),
                             msg=str(e))
    except KeyboardInterrupt:
        raise
    except BaseException as e:  # includes SystemExit, RecursionError
        return CompileResult('crash', exc=type(e).__name__, stage=stage,
                             msg=str(e)[:200], where=_where(e.__traceback__))


def load(binary):
    """QModule.parse that turns perror()'s SystemExit into an exception."""
    err = io.StringIO()
    old = sys.stderr
    sys.stderr = err
    try:
        return QModule.parse(binary)
    except SystemExit:
        raise ValueError('loader rejected module: ' + err.getvalue().strip())
    finally:
        sys.stderr = old


def split_sections(binary):
    """{section_id: bytes} by the module file format (independent of QModule)."""
    out = {}
    i = 0
    while i < len(binary):
        sid = binary[i]
        n = int.from_bytes(binary[i + 1:i + 5], 'big')
        out[sid] = binary[i + 5:i + 5 + n]
        i += 5 + n
    return out


# ---------------------------------------------------------------------------
# instruction decoding (sizes taken from the implementation's table; the
# independent table for C09 lives in qv.isa)

_OPSIZE = {}
for _oc, _ins in op_code_to_instr.items():
    _OPSIZE[_oc] = 1 + sum(o.size for o in _ins.operands)
_IO_OPCODE = next(oc for oc, ins in op_code_to_instr.items() if ins.op == 'io')


def instr_starts(code):
    """addresses of instruction starts by linear sweep, or None if undecodable"""
    starts = []
    i = 0
    n = len(code)
    while i < n:
        sz = _OPSIZE.get(code[i])
        if sz is None:
            return None
        starts.append(i)
        i += sz
    if i != n:
        return None
    return starts


def op_at(code, pc):
    ins = op_code_to_instr.get(code[pc])
    return ins.op if ins else None


# ---------------------------------------------------------------------------
# scripted environment

class Exhausted(BaseException):
    """the script has no answer for a device question (explorer choice point)"""
    def __init__(self, kind):
        self.kind = kind


class Env:
    """Scripted peripherals object.

    script: dict kind -> list of answers, kinds: input inkey rnd timer peek.
    An answer may be the string '!fail' (raise DeviceError) for any kind.
    When a queue is empty: `on_empty[kind]` is 'default' (benign answer),
    'raise' (Exhausted) ; input defaults to 'raise'.
    fail: set of device method names that raise DeviceError when called;
    missing: set of method names that do not exist (AttributeError).
    """
    DEFAULTS = {'inkey': '', 'rnd': 0.5, 'timer': 0.0, 'peek': 0}

    def __init__(self, script=None, on_empty=None, fail=(), missing=()):
        self.q = {k: list(v) for k, v in (script or {}).items()}
        self.on_empty = dict(on_empty or {})
        self.fail = set(fail)
        self.missing = set(missing)
        self.events = []
        self.consumed = 0

    # -- event recording
    def _ev(self, *ev):
        self.events.append(ev)

    def _answer(self, kind):
        q = self.q.get(kind)
        if q:
            self.consumed += 1
            a = q.pop(0)
            if a == '!fail':
                raise DeviceError(f'scripted failure of {kind}')
            return a
        pol = self.on_empty.get(kind, 'raise' if kind == 'input' else 'default')
        if pol == 'raise':
            raise Exhausted(kind)
        return self.DEFAULTS[kind]

    def __getattr__(self, attr):
        if attr.startswith('_') or attr in ('q', 'on_empty', 'fail', 'missing',
                                            'events', 'consumed'):
            raise AttributeError(attr)
        if attr in self.missing:
            raise AttributeError(attr, name=attr, obj=self)
        for d in ('data', 'memory', 'pcspkr', 'rng', 'terminal', 'time', 'fs',
                  'misc'):
            if attr.startswith(d + '_'):
                op = attr[len(d) + 1:]

                def rec(*args, _d=d, _op=op, _a=attr):
                    if _a in self.fail:
                        raise DeviceError(f'injected failure of {_a}')
                    self._ev('dev', _d, _op, *args)
                return rec
        raise AttributeError(attr, name=attr, obj=self)

    def _chk(self, name):
        if name in self.missing:
            raise AttributeError(name, name=name, obj=self)
        if name in self.fail:
            raise DeviceError(f'injected failure of {name}')

    def terminal_print(self, text):
        self._chk('terminal_print')
        if self.events and self.events[-1][0] == 'print':
            self.events[-1] = ('print', self.events[-1][1] + text)
        else:
            self.events.append(('print', text))

    def terminal_input(self, same_line):
        self._chk('terminal_input')
        a = self._answer('input')
        self._ev('input', bool(same_line), a)
        return a

    def terminal_inkey(self):
        self._chk('terminal_inkey')
        a = self._answer('inkey')
        self._ev('inkey', a)
        return a

    def rng_get_next(self):
        self._chk('rng_get_next')
        a = self._answer('rnd')
        self._ev('rnd', a)
        return a

    def rng_get_with_seed(self, seed):
        self._chk('rng_get_with_seed')
        self._ev('rnd_seeded', seed)
        return abs(seed / 100) % 1.0

    def time_get_time(self):
        self._chk('time_get_time')
        a = self._answer('timer')
        self._ev('timer', a)
        return a

    def memory_peek(self, offset):
        self._chk('memory_peek')
        a = self._answer('peek')
        self._ev('peek', offset, a)
        return a

    def __deepcopy__(self, memo):
        e = Env.__new__(Env)
        e.q = {k: list(v) for k, v in self.q.items()}
        e.on_empty = dict(self.on_empty)
        e.fail = set(self.fail)
        e.missing = set(self.missing)
        e.events = list(self.events)
        e.consumed = self.consumed
        memo[id(self)] = e
        return e


# ---------------------------------------------------------------------------
# running

MACHINE_FAULTS = {'INVALID_OP_CODE', 'STACK_EMPTY', 'TYPE_MISMATCH',
                  'INVALID_LOCAL_VAR_IDX', 'INVALID_GLOBAL_VAR_IDX',
                  'NULL_REFERENCE', 'UNINITIALIZED_MEM', 'INVALID_DIMENSIONS',
                  'DEVICE_NOT_AVAILABLE'}


class Outcome:
    """end: 'halt' (INSTRUCTION) | 'eoc' (END_OF_CODE) | 'trap' | 'horizon'
    | 'exhausted' | 'hostexc'"""
    __slots__ = ('end', 'trap', 'trapped_addr', 'line', 'ticks', 'events',
                 'exc', 'where', 'prints', 'stack_depth')

    def __init__(self):
        self.end = None
        self.trap = None
        self.trapped_addr = None
        self.line = None
        self.ticks = 0
        self.events = None
        self.exc = None
        self.where = None
        self.prints = None
        self.stack_depth = None

    def key(self, with_line=False):
        k = (self.end, self.trap, self.exc)
        if with_line:
            k += (self.line,)
        return k

    def summary(self):
        return {'end': self.end, 'trap': self.trap, 'exc': self.exc,
                'where': self.where, 'line': self.line, 'ticks': self.ticks,
                'events': _jsonable(self.events)}


def _jsonable(x):
    if isinstance(x, (list, tuple)):
        return [_jsonable(i) for i in x]
    if isinstance(x, float):
        if x != x or x in (float('inf'), float('-inf')):
            return repr(x)
        return x
    if isinstance(x, (int, str, bool)) or x is None:
        return x
    if isinstance(x, dict):
        return {str(k): _jsonable(v) for k, v in x.items()}
    return repr(x)


jsonable = _jsonable


def new_machine(module, env):
    with quiet():
        return QvmMachine(module, impl=env)


def print_items_at(cpu):
    """typed items of the PRINT about to execute, read from the operand
    stack: list of ('%',5) | ';' | ',' | ('using', fmt)."""
    st = cpu.stack
    try:
        n = st[-1].value
        args = st[len(st) - 1 - n:len(st) - 1]
        out = []
        i = 0
        while i < len(args):
            tag = args[i].value
            if tag == 0:
                v = args[i + 1]
                out.append((v.type.name, v.value))
                i += 2
            elif tag == 1:
                out.append(';')
                i += 1
            elif tag == 2:
                out.append(',')
                i += 1
            elif tag == 3:
                out.append(('using', args[i + 1].value))
                i += 2
            else:
                out.append(('?', tag))
                i += 1
        return out
    except Exception:
        return None


def finish_outcome(out, cpu, env, module):
    out.events = list(env.events)
    out.stack_depth = len(cpu.stack)
    if out.end is None:
        if cpu.halt_reason == HaltReason.TRAP:
            out.end = 'trap'
            out.trap = cpu.last_trap.name if cpu.last_trap else None
            out.trapped_addr = cpu.trapped_addr
            di = module.debug_info
            if di is not None:
                try:
                    st = di.find_stmt(cpu.trapped_addr, cpu)
                    out.line = getattr(st, 'source_start_line', None) if st else None
                except Exception:
                    out.line = None
        elif cpu.halt_reason == HaltReason.INSTRUCTION:
            out.end = 'halt'
        elif cpu.halt_reason == HaltReason.END_OF_CODE:
            out.end = 'eoc'
        else:
            out.end = 'undefined:' + str(cpu.halt_reason)
    return out


def run_module(module, env, horizon=200000, typed_prints=False, monitor=None,
               machine=None):
    """Tick the real CPU until it halts.  Never raises (host exceptions are
    reported in the outcome)."""
    out = Outcome()
    m = machine or new_machine(module, env)
    cpu = m.cpu
    code = module.code
    prints = [] if typed_prints else None
    n = len(code)
    try:
        with quiet():
            while not cpu.halted:
                if out.ticks >= horizon:
                    out.end = 'horizon'
                    break
                if cpu.pc >= n:
                    # what run() does
                    out.end = 'eoc'
                    break
                if typed_prints and code[cpu.pc] == _IO_OPCODE and \
                        code[cpu.pc + 1] == 2 and code[cpu.pc + 2] == 2:
                    prints.append(print_items_at(cpu))
                if monitor is not None:
                    monitor.pre(cpu)
                cpu.tick()
                out.ticks += 1
                if monitor is not None:
                    monitor.post(cpu)
    except Exhausted as e:
        out.end = 'exhausted'
    except Timeout:
        raise
    except KeyboardInterrupt:
        raise
    except BaseException as e:
        out.end = 'hostexc'
        out.exc = type(e).__name__
        out.where = _where(e.__traceback__)
    out.prints = prints
    return finish_outcome(out, cpu, env, module), m


def run_via_run(module, env):
    """Run through the machine's own run() loop (what qvm.run uses)."""
    out = Outcome()
    m = new_machine(module, env)
    try:
        with quiet():
            m.run()
    except Exhausted:
        out.end = 'exhausted'
    except (Timeout, KeyboardInterrupt):
        raise
    except BaseException as e:
        out.end = 'hostexc'
        out.exc = type(e).__name__
        out.where = _where(e.__traceback__)
    return finish_outcome(out, m.cpu, env, module), m


def compile_and_run(src, opt=0, dbg=False, script=None, horizon=200000,
                    typed_prints=False, **envkw):
    r = compile_text(src, opt, dbg)
    if not r.ok:
        return r, None
    mod = load(r.binary)
    env = Env(script, **envkw)
    out, _ = run_module(mod, env, horizon=horizon, typed_prints=typed_prints)
    return r, out


def fork_machine(machine):
    """deep copy of a machine + its Env, sharing the immutable module"""
    mod = machine.cpu.module
    memo = {id(mod): mod}
    old = signal.getsignal(signal.SIGINT)
    try:
        return copy.deepcopy(machine, memo)
    finally:
        signal.signal(signal.SIGINT, old)
