"""C11 oracles: the debug map of one module against the decoded code, the
generator's statement table (qv.blockshapes) and one scripted run.

Only `module.code`, `module.literals`, `module.debug_info.stmts / .routines /
.find_stmt` and the record fields start_offset, end_offset,
source_start_offset, source_end_offset, source_start_line are touched."""
from . import impl
from . import blockshapes as bs


TERMINATORS = ('endif', 'endselect', 'next', 'wend', 'loop', 'endsub', 'endfunction')
HEADERS = ('if', 'select', 'for', 'while', 'do', 'sub', 'function')
CLAUSES = ('elseif', 'else', 'case', 'caseelse')


def kind_class(kind):
    """coarse class of a generator statement kind (violation features)"""
    if kind in TERMINATORS:
        return 'terminator'
    if kind in HEADERS:
        return 'header'
    if kind in CLAUSES:
        return 'clause'
    if kind == 'if1':
        return 'if1'
    if kind == '?':
        return '?'
    return 'simple'


def decode(code):
    """[(addr, op, operand bytes)] by linear sweep, or None"""
    starts = impl.instr_starts(code)
    if starts is None:
        return None
    out = []
    for i, a in enumerate(starts):
        b = starts[i + 1] if i + 1 < len(starts) else len(code)
        out.append((a, impl.op_at(code, a), bytes(code[a + 1:b])))
    return out


class Rec:
    __slots__ = ('a', 'b', 'sa', 'sb', 'line', 'gen', 'exact', 'raw')

    def __init__(self, r):
        self.raw = r
        self.a = r.start_offset
        self.b = r.end_offset
        self.sa = r.source_start_offset
        self.sb = r.source_end_offset
        self.line = r.source_start_line
        self.gen = None
        self.exact = False

    def key(self):
        return (self.a, self.b, self.sa, self.sb)

    def brief(self, src):
        ext = src[self.sa:self.sb] if isinstance(self.sa, int) and isinstance(self.sb, int) else None
        return {'code': [self.a, self.b], 'line': self.line, 'extract': ext}


def _strip_span(src, a, b):
    while a < b and src[a] in ' \t\r\n':
        a += 1
    while b > a and src[b - 1] in ' \t\r\n':
        b -= 1
    return a, b


def _tag_of_instr(op, operand, literals, tags):
    if op in ('push%', 'push&'):
        v = int.from_bytes(operand, 'big', signed=True)
        return v if v in tags else None
    if op == 'push$':
        i = int.from_bytes(operand, 'big')
        if 0 <= i < len(literals):
            s = literals[i]
            if isinstance(s, str) and s[:1] == 't' and s[1:].isdigit() and int(s[1:]) in tags:
                return int(s[1:])
    return None


def routine_extents(instrs, ncode):
    """entries recovered from `call` targets that start with `frame`:
    [(entry, end)] sorted; the first one is the main routine"""
    ops = {a: op for a, op, _ in instrs}
    entries = set()
    for a, op, operand in instrs:
        if op == 'call':
            t = int.from_bytes(operand, 'big')
            if ops.get(t) == 'frame':
                entries.add(t)
    entries = sorted(entries)
    return [(e, entries[i + 1] if i + 1 < len(entries) else ncode)
            for i, e in enumerate(entries)]


class _IoMon:
    """records, for every executed `io`, (pc, event(s) it produced)"""

    def __init__(self, code, env):
        self.code = code
        self.env = env
        self.pending = None
        self.log = []

    def pre(self, cpu):
        pc = cpu.pc
        if 0 <= pc < len(self.code) and impl.op_at(self.code, pc) == 'io':
            ev = self.env.events
            last = len(ev[-1][1]) if ev and ev[-1][0] == 'print' else None
            self.pending = (pc, len(ev), last)

    def post(self, cpu):
        if self.pending is None:
            return
        pc, n0, last = self.pending
        self.pending = None
        ev = self.env.events
        new = []
        if last is not None and n0 >= 1 and len(ev) >= n0 and ev[n0 - 1][0] == 'print' \
                and len(ev[n0 - 1][1]) > last:
            new.append(('print', ev[n0 - 1][1][last:]))
        new.extend(ev[n0:])
        self.log.append((pc, new))


def _print_tag(text):
    t = text.strip()
    if t[:1] == 't':
        t = t[1:]
    return int(t) if t.isdigit() else None


def analyse(src, module, stmts=None, script=None, on_empty=None, horizon=60000,
            dynamic=True, fail=None):
    """-> (violations, info).  A violation is (divergence, stmt_kind, detail).
    `stmts` = the generator's statement table (None for untagged programs:
    then only the oracles that need no ground truth are applied)."""
    bad = []
    info = {'records': 0, 'instrs': 0, 'tag_instrs': 0, 'io_checked': 0,
            'trap_checked': 0, 'empty_records': 0, 'routines': 0, 'outcome': None,
            'find_calls': 0, 'tags_absent': 0, 'ev_checked': 0}
    code = module.code
    di = module.debug_info
    if di is None:
        return [('no-debug-info', '-', {})], info
    instrs = decode(code)
    if instrs is None:
        return [('undecodable', '-', {})], info
    ncode = len(code)
    starts = {a for a, _, _ in instrs}
    bounds = starts | {ncode}
    info['instrs'] = len(instrs)
    tags = bs.stmt_by_tag(stmts) if stmts else {}

    def kind_of(rec):
        return rec.gen['kind'] if rec is not None and rec.gen is not None else '?'

    def cls_of(rec):
        return kind_class(kind_of(rec))

    # ---- records
    recs = []
    for r in di.stmts:
        rec = Rec(r)
        recs.append(rec)
        ok = (isinstance(rec.a, int) and isinstance(rec.b, int) and 0 <= rec.a <= rec.b <= ncode
              and rec.a in bounds and rec.b in bounds)
        if not ok:
            bad.append(('boundary', '?', {'record': rec.brief(src)}))
        sok = (isinstance(rec.sa, int) and isinstance(rec.sb, int) and 0 <= rec.sa < rec.sb <= len(src))
        if not sok:
            bad.append(('source-range', '?', {'record': rec.brief(src)}))
            continue
        if stmts is not None:
            a, b = _strip_span(src, rec.sa, rec.sb)
            g, exact = bs.stmt_at(stmts, a, b)
            rec.gen, rec.exact = g, exact
            if g is None:
                bad.append(('extract-not-a-statement', '?', {'record': rec.brief(src)}))
            elif rec.line != g['line']:
                bad.append(('line', g['kind'], {'record': rec.brief(src), 'statement_line': g['line']}))
        else:
            a, _ = _strip_span(src, rec.sa, rec.sb)
            line = src.count('\n', 0, a) + 1
            if rec.line != line:
                bad.append(('line', '?', {'record': rec.brief(src), 'statement_line': line}))
    info['records'] = len(recs)
    live = [r for r in recs if isinstance(r.a, int) and isinstance(r.b, int) and r.a < r.b]
    info['empty_records'] = len(recs) - len(live)

    # ---- laminar family; code nesting follows source nesting
    for i, p in enumerate(live):
        for q in live[i + 1:]:
            if p.b <= q.a or q.b <= p.a:
                continue
            if q.a <= p.a and p.b <= q.b:
                inner, outer = p, q
            elif p.a <= q.a and q.b <= p.b:
                inner, outer = q, p
            else:
                inner = outer = None
            if inner is None:
                bad.append(('laminar', '+'.join(sorted((cls_of(p), cls_of(q)))),
                            {'a': p.brief(src), 'b': q.brief(src),
                             'kinds': [kind_of(p), kind_of(q)]}))
                continue
            same_code = (p.a, p.b) == (q.a, q.b)
            if stmts is not None and inner.gen is not None and outer.gen is not None:
                gi, go = inner.gen, outer.gen
                if gi['id'] == go['id']:
                    continue
                if go['id'] in bs.ancestors(stmts, gi['id']):
                    continue
                if same_code and gi['id'] in bs.ancestors(stmts, go['id']):
                    continue
                bad.append(('ambiguous' if same_code else 'nesting',
                            cls_of(outer) + '>' + cls_of(inner),
                            {'outer': outer.brief(src), 'inner': inner.brief(src),
                             'kinds': [kind_of(outer), kind_of(inner)]}))
            elif stmts is None and same_code:
                # without ground truth: equal code, then one extract inside the other
                if not ((p.sa <= q.sa and q.sb <= p.sb) or (q.sa <= p.sa and p.sb <= q.sb)):
                    bad.append(('ambiguous', '?', {'a': p.brief(src), 'b': q.brief(src)}))

    # ---- routines recovered from the code
    ext = routine_extents(instrs, ncode)
    info['routines'] = len(ext)
    cpu = impl.new_machine(module, impl.Env({})).cpu

    def find(a):
        info['find_calls'] += 1
        try:
            return di.find_stmt(a, cpu)
        except Exception as e:      # noqa
            return e

    def innermost(a):
        cov = [r for r in live if r.a <= a < r.b]
        if not cov:
            return []
        m = min(r.b - r.a for r in cov)
        return [r for r in cov if r.b - r.a == m]

    by_addr = {a: (op, operand) for a, op, operand in instrs}
    order = [a for a, _, _ in instrs]
    uncovered = set()
    for ri, (entry, end) in enumerate(ext):
        body = [a for a in order if entry <= a < end]
        rets = [a for a in body if by_addr[a][0] in ('ret', 'retv')]
        if not rets or by_addr[body[0]][0] != 'frame':
            bad.append(('routine', '?', {'extent': [entry, end], 'why': 'no frame/ret'}))
            continue
        final = rets[-1]
        gap = []

        def flush():
            # one violation per maximal run of uncovered instructions, named
            # after the innermost tagged statement whose operand lies in it
            if not gap:
                return
            owner, depth = None, -1
            for a in gap:
                t = _tag_of_instr(by_addr[a][0], by_addr[a][1], module.literals, tags)
                if t is not None:
                    d = len(bs.ancestors(stmts, tags[t]['id']))
                    if d > depth:
                        owner, depth = tags[t], d
            prev = [r for r in live if r.b <= gap[0]]
            near = max(prev, key=lambda r: r.b) if prev else None
            bad.append(('uncovered', owner['kind'] if owner else '-',
                        {'addrs': [gap[0], gap[-1]], 'ops': [by_addr[a][0] for a in gap][:12],
                         'routine_entry': entry, 'statement': owner['text'] if owner else None,
                         'previous_record': near.brief(src) if near else None}))
            del gap[:]

        for a in body:
            if not (entry < a < final):
                continue
            mins = innermost(a)
            if not mins:
                uncovered.add(a)
                gap.append(a)
                continue
            flush()
            got = find(a)
            if isinstance(got, Exception) or got is None:
                bad.append(('find_stmt', cls_of(mins[0]),
                            {'addr': a, 'got': repr(got)[:120], 'innermost': mins[0].brief(src)}))
                continue
            gk = (got.start_offset, got.end_offset, got.source_start_offset, got.source_end_offset)
            if gk not in {r.key() for r in mins}:
                bad.append(('find_stmt', cls_of(mins[0]),
                            {'addr': a, 'got': Rec(got).brief(src), 'innermost': mins[0].brief(src)}))
        flush()
    # routine records
    rrecs = []
    try:
        rrecs = list(di.routines.values())
    except Exception:
        bad.append(('routine', '?', {'why': 'routines not a mapping'}))
    by_start = {}
    for r in rrecs:
        by_start.setdefault(r.start_offset, []).append(r)
        if r.start_offset not in starts or by_addr[r.start_offset][0] != 'frame':
            bad.append(('routine', '?', {'why': 'record does not start at a frame instruction',
                                         'record': [r.start_offset, r.end_offset]}))
    for entry, end in ext[1:]:
        rs = by_start.get(entry, [])
        if len(rs) != 1 or rs[0].end_offset != end:
            bad.append(('routine', '?', {'why': 'routine extent differs', 'extent': [entry, end],
                                         'records': [[r.start_offset, r.end_offset] for r in rs]}))
    if stmts is not None:
        ndefs = sum(1 for s in stmts if s['kind'] in ('sub', 'function'))
        if len(rrecs) != ndefs or len(ext) != ndefs + 1:
            bad.append(('routine', '?', {'why': 'routine count', 'defined': ndefs,
                                         'records': len(rrecs), 'recovered': len(ext) - 1}))

    # ---- ground truth through the tags
    def attributed(a, tag, what):
        g = tags[tag]
        got = find(a)
        if got is None and a in uncovered:
            return          # already reported as 'uncovered'
        if isinstance(got, Exception) or got is None:
            bad.append((what, g['kind'], {'addr': a, 'tag': tag, 'got': repr(got)[:120],
                                          'statement': g['text'], 'statement_line': g['line']}))
            return
        r = Rec(got)
        ext_ = src[r.sa:r.sb] if isinstance(r.sa, int) and isinstance(r.sb, int) else ''
        if r.line != g['line'] or str(tag) not in ext_:
            bad.append((what, g['kind'], {'addr': a, 'tag': tag, 'got': r.brief(src),
                                          'statement': g['text'], 'statement_line': g['line']}))

    if stmts is not None:
        seen_tags = set()
        for a, op, operand in instrs:
            t = _tag_of_instr(op, operand, module.literals, tags)
            if t is None:
                continue
            info['tag_instrs'] += 1
            seen_tags.add(t)
            attributed(a, t, 'tag-attribution')
        # (no demand that a tag survives: dead code may be removed)
        info['tags_absent'] = sum(1 for t in tags if t not in seen_tags)

    # ---- one run: device interactions and the run-time error
    if dynamic:
        env = impl.Env(script, on_empty=on_empty, fail=fail or ())
        mon = _IoMon(code, env)
        out, mach = impl.run_module(module, env, horizon=horizon, monitor=mon)
        info['outcome'] = (out.end, out.trap)

        def same_statement(a, g, what, extra):
            """find_stmt(a) must be a record of generator statement g (its
            extract lies inside g's text and in no smaller statement)"""
            got = find(a)
            if got is None and a in uncovered:
                return      # already reported as 'uncovered'
            if isinstance(got, Exception) or got is None:
                bad.append((what, g['kind'], dict(extra, addr=a, got=repr(got)[:120],
                                                  statement=g['text'], statement_line=g['line'])))
                return
            r = Rec(got)
            ok = isinstance(r.sa, int) and isinstance(r.sb, int) and 0 <= r.sa < r.sb <= len(src)
            if ok:
                gg, _ = bs.stmt_at(stmts, *_strip_span(src, r.sa, r.sb))
                ok = gg is not None and gg['id'] == g['id'] and r.line == g['line']
            if not ok:
                bad.append((what, g['kind'], dict(extra, addr=a, got=r.brief(src),
                                                  statement=g['text'], statement_line=g['line'])))

        # statements that announce the device event they produce
        by_ev = {}
        for g in (stmts or ()):
            if g.get('ev'):
                by_ev.setdefault(tuple(g['ev']), []).append(g)
        by_ev = {k: v[0] for k, v in by_ev.items() if len(v) == 1}
        g = by_ev.get(('timer',))
        if g is not None:
            # other statements that call TIMER without announcing it (the
            # text of a one-line IF includes the text of its statements)
            anc = {a for a in bs.ancestors(stmts, g['id']) if stmts[a]['kind'] == 'if1'} | {g['id']}
            if any('TIMER' in o['text'] and o['id'] not in anc for o in stmts):
                del by_ev[('timer',)]

        for pc, evs in mon.log:
            for ev in evs:
                if stmts is not None:
                    hit = False
                    if ev[0] == 'print':
                        t = _print_tag(ev[1])
                        if t in tags:
                            info['io_checked'] += 1
                            attributed(pc, t, 'io-attribution')
                            hit = True
                    for pre, g in by_ev.items():
                        if tuple(ev[:len(pre)]) == pre:
                            info['io_checked'] += 1
                            info['ev_checked'] += 1
                            same_statement(pc, g, 'io-attribution', {'event': impl.jsonable(ev)})
                            hit = True
                    if not hit and ev[0] == 'timer':
                        info['io_checked'] += 1
                        got = find(pc)
                        ok = not isinstance(got, Exception) and got is not None and \
                            'TIMER' in src[got.source_start_offset:got.source_end_offset]
                        if got is None and pc in uncovered:
                            ok = True       # already reported as 'uncovered'
                        if not ok:
                            bad.append(('io-attribution', 'timer',
                                        {'addr': pc, 'got': repr(got)[:120] if got is None or isinstance(
                                            got, Exception) else Rec(got).brief(src)}))
                else:
                    info['io_checked'] += 1
                    got = find(pc)
                    if got is None and pc in uncovered:
                        continue        # already reported as 'uncovered'
                    if isinstance(got, Exception) or got is None:
                        bad.append(('io-attribution', '?', {'addr': pc, 'event': impl.jsonable(ev),
                                                            'got': repr(got)[:120]}))
        if out.end == 'trap' and out.trapped_addr is not None:
            ta = out.trapped_addr
            if stmts is not None:
                announced = [g for g in stmts if g.get('trap')]
                if announced:
                    # the program was built around one failing statement
                    if len(announced) == 1 and announced[0]['trap'] == out.trap:
                        info['trap_checked'] += 1
                        same_statement(ta, announced[0], 'trap-attribution', {'trap': out.trap})
                elif out.trap == 'INVALID_CELL_VALUE':
                    # the constructed failing statement: the one with the
                    # tagged operand closest before the trapping instruction
                    fails = [s_ for s_ in stmts if s_['kind'] == 'fail']
                    cand = None
                    for a, op, operand in instrs:
                        if a > ta:
                            break
                        t = _tag_of_instr(op, operand, module.literals, tags)
                        if t is not None and tags[t]['kind'] == 'fail':
                            cand = t
                    if cand is not None and fails:
                        info['trap_checked'] += 1
                        attributed(ta, cand, 'trap-attribution')
            else:
                if ta in starts and any(e < ta < x for e, x in ext):
                    info['trap_checked'] += 1
                    got = find(ta)
                    if got is None and ta in uncovered:
                        pass        # already reported as 'uncovered'
                    elif isinstance(got, Exception) or got is None:
                        bad.append(('trap-attribution', '?', {'addr': ta, 'trap': out.trap,
                                                              'got': repr(got)[:120]}))
    return bad, info


def table(src, module):
    """printable record table (replay)"""
    lines = []
    instrs = decode(module.code) or []
    lines.append(' '.join(f'{a}:{op}' + (f'({o.hex()})' if o else '') for a, op, o in instrs))
    di = module.debug_info
    for r in di.stmts:
        lines.append('  [%3d,%3d) line %s %r' % (r.start_offset, r.end_offset, r.source_start_line,
                                                src[r.source_start_offset:r.source_end_offset]))
    for n, r in di.routines.items():
        lines.append('  routine %s [%d,%d)' % (n, r.start_offset, r.end_offset))
    return '\n'.join(lines)
