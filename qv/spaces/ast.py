"""E3 - the harness's own small QBASIC AST and its renderer.

Nodes are plain objects; `render(prog)` produces canonical source text and
records on every statement node the 1-based source line it starts on
(`node.line`), which is what the reference interpreter reports as the
failing statement.  Nothing here imports qbee.
"""

# precedence, high -> low (REFSEM 5)
PREC = {'^': 13, 'NEG': 12, '*': 11, '/': 11, '\\': 10, 'MOD': 9, '+': 8, '-': 8,
        '=': 7, '<>': 7, '<': 7, '>': 7, '<=': 7, '>=': 7,
        'NOT': 6, 'AND': 5, 'OR': 4, 'XOR': 3, 'EQV': 2, 'IMP': 1}
CMP_OPS = ('=', '<>', '<', '>', '<=', '>=')
ARITH_OPS = ('^', '*', '/', '\\', 'MOD', '+', '-')
LOGIC_OPS = ('AND', 'OR', 'XOR', 'EQV', 'IMP')
BIN_OPS = ARITH_OPS + CMP_OPS + LOGIC_OPS


class Node:
    __slots__ = ()
    line = None

    def __repr__(self):
        return f'{type(self).__name__}({", ".join(repr(getattr(self, s)) for s in self.__slots__ if s != "line")})'


# ---- expressions ----------------------------------------------------------

class Lit(Node):
    """numeric literal, exactly as spelled (no sign)"""
    __slots__ = ('text',)

    def __init__(self, text):
        self.text = text


class Str(Node):
    __slots__ = ('value',)

    def __init__(self, value):
        self.value = value


class Var(Node):
    """scalar variable, CONST name, or whole record; name carries its suffix"""
    __slots__ = ('name',)

    def __init__(self, name):
        self.name = name


class Index(Node):
    """array element  name(i, j)"""
    __slots__ = ('name', 'subs')

    def __init__(self, name, subs):
        self.name = name
        self.subs = list(subs)


class Field(Node):
    """record field  base.f   (base: Var | Index | Field)"""
    __slots__ = ('base', 'field')

    def __init__(self, base, field):
        self.base = base
        self.field = field


class Un(Node):
    __slots__ = ('op', 'e')      # op: '-', '+', 'NOT'

    def __init__(self, op, e):
        self.op = op
        self.e = e


class Bin(Node):
    __slots__ = ('op', 'l', 'r')

    def __init__(self, op, l, r):
        self.op = op
        self.l = l
        self.r = r


class Paren(Node):
    __slots__ = ('e',)

    def __init__(self, e):
        self.e = e


class Builtin(Node):
    __slots__ = ('name', 'args')  # name upper case, e.g. 'LEFT$'

    def __init__(self, name, args=()):
        self.name = name
        self.args = list(args)


class FnCall(Node):
    __slots__ = ('name', 'args')

    def __init__(self, name, args=()):
        self.name = name
        self.args = list(args)


class ArrayArg(Node):
    """whole array as an argument:  a()"""
    __slots__ = ('name',)

    def __init__(self, name):
        self.name = name


# ---- statements -----------------------------------------------------------

class Stmt(Node):
    # no __slots__: line / end_line / arm_lines ... are set by render()
    line = None
    end_line = None
    arm_lines = None
    else_line = None
    case_lines = None


class Assign(Stmt):
    __slots__ = ('target', 'e')

    def __init__(self, target, e):
        self.target = target
        self.e = e


class Print(Stmt):
    """items: expressions and the separator strings ';' and ','"""
    __slots__ = ('items',)

    def __init__(self, items):
        self.items = list(items)


class Input(Stmt):
    __slots__ = ('prompt', 'question', 'targets', 'same_line')

    def __init__(self, targets, prompt=None, question=True, same_line=False):
        self.targets = list(targets)
        self.prompt = prompt
        self.question = question
        self.same_line = same_line


class If(Stmt):
    """block IF: arms = [(cond, body), ...] (first is IF, rest ELSEIF)"""
    __slots__ = ('arms', 'else_body')

    def __init__(self, arms, else_body=None):
        self.arms = [(c, list(b)) for c, b in arms]
        self.else_body = None if else_body is None else list(else_body)


class IfLine(Stmt):
    """one-line IF cond THEN s1: s2 [ELSE s3]"""
    __slots__ = ('cond', 'then', 'else_')

    def __init__(self, cond, then, else_=None):
        self.cond = cond
        self.then = list(then)
        self.else_ = None if else_ is None else list(else_)


class For(Stmt):
    __slots__ = ('var', 'a', 'b', 'step', 'body', 'next_var')

    def __init__(self, var, a, b, step=None, body=(), next_var=False):
        self.var = var
        self.a = a
        self.b = b
        self.step = step
        self.body = list(body)
        self.next_var = next_var


class While(Stmt):
    __slots__ = ('cond', 'body')

    def __init__(self, cond, body=()):
        self.cond = cond
        self.body = list(body)


class Do(Stmt):
    """kind: forever | do_while | do_until | loop_while | loop_until"""
    __slots__ = ('kind', 'cond', 'body')

    def __init__(self, kind, cond=None, body=()):
        self.kind = kind
        self.cond = cond
        self.body = list(body)


class Exit(Stmt):
    __slots__ = ('what',)  # DO FOR SUB FUNCTION

    def __init__(self, what):
        self.what = what


class Select(Stmt):
    """cases = [(clauses, body)], clause = ('val', e) | ('range', a, b) | ('is', op, e)"""
    __slots__ = ('e', 'cases', 'else_body')

    def __init__(self, e, cases, else_body=None):
        self.e = e
        self.cases = [(list(cl), list(b)) for cl, b in cases]
        self.else_body = None if else_body is None else list(else_body)


class Label(Stmt):
    """a label (str) or line number (int) on a line of its own"""
    __slots__ = ('name',)

    def __init__(self, name):
        self.name = name


class Goto(Stmt):
    __slots__ = ('target',)

    def __init__(self, target):
        self.target = target


class Gosub(Stmt):
    __slots__ = ('target',)

    def __init__(self, target):
        self.target = target


class Return(Stmt):
    __slots__ = ('target',)

    def __init__(self, target=None):
        self.target = target


class End(Stmt):
    __slots__ = ('word',)

    def __init__(self, word='END'):
        self.word = word


class Rem(Stmt):
    __slots__ = ('text',)

    def __init__(self, text=''):
        self.text = text


class Decl(Node):
    """one declared name: dims = None | [(lo_expr | None, hi_expr)], astype = None | type name"""
    __slots__ = ('name', 'dims', 'astype')

    def __init__(self, name, dims=None, astype=None):
        self.name = name
        self.dims = dims
        self.astype = astype


class Dim(Stmt):
    __slots__ = ('decls', 'shared')

    def __init__(self, decls, shared=False):
        self.decls = list(decls)
        self.shared = shared


class Static(Stmt):
    __slots__ = ('decls',)

    def __init__(self, decls):
        self.decls = list(decls)


class Const(Stmt):
    __slots__ = ('name', 'e')

    def __init__(self, name, e):
        self.name = name
        self.e = e


class DefType(Stmt):
    """kind: INT LNG SNG DBL STR ; ranges: [('a','c'), ('x', None)]"""
    __slots__ = ('kind', 'ranges')

    def __init__(self, kind, ranges):
        self.kind = kind
        self.ranges = list(ranges)


class TypeDef(Stmt):
    __slots__ = ('name', 'fields')   # fields: [(name, type name)]

    def __init__(self, name, fields):
        self.name = name
        self.fields = list(fields)


class Param(Node):
    """name with suffix or AS type; array=True for  a()  parameters"""
    __slots__ = ('name', 'astype', 'array')

    def __init__(self, name, astype=None, array=False):
        self.name = name
        self.astype = astype
        self.array = array


class Proc(Stmt):
    """SUB or FUNCTION definition"""
    __slots__ = ('kind', 'name', 'params', 'body', 'static')

    def __init__(self, kind, name, params=(), body=(), static=False):
        self.kind = kind          # 'SUB' | 'FUNCTION'
        self.name = name
        self.params = list(params)
        self.body = list(body)
        self.static = static


class Declare(Stmt):
    __slots__ = ('kind', 'name', 'params')

    def __init__(self, kind, name, params=()):
        self.kind = kind
        self.name = name
        self.params = list(params)


class CallSub(Stmt):
    __slots__ = ('name', 'args', 'style')   # style: 'call' | 'bare'

    def __init__(self, name, args=(), style='call'):
        self.name = name
        self.args = list(args)
        self.style = style


class Data(Stmt):
    __slots__ = ('items',)     # raw item texts

    def __init__(self, items):
        self.items = list(items)


class Read(Stmt):
    __slots__ = ('targets',)

    def __init__(self, targets):
        self.targets = list(targets)


class Restore(Stmt):
    __slots__ = ('target',)

    def __init__(self, target=None):
        self.target = target


class Randomize(Stmt):
    __slots__ = ('e',)

    def __init__(self, e):
        self.e = e


class Dev(Stmt):
    """device statement: kind in CLS BEEP COLOR LOCATE SCREEN WIDTH VIEWPRINT
    SOUND PLAY POKE DEFSEG ; args: list of expr | None (left out)"""
    __slots__ = ('kind', 'args')

    def __init__(self, kind, args=()):
        self.kind = kind
        self.args = list(args)


class Program(Node):
    __slots__ = ('body',)

    def __init__(self, body):
        self.body = list(body)


# ---------------------------------------------------------------------------
# rendering

def _needs_paren(child, parent_op, side):
    """does `child` need parentheses as the `side` operand of parent_op?"""
    if isinstance(child, Bin):
        cp = PREC[child.op]
    elif isinstance(child, Un):
        cp = PREC['NOT'] if child.op == 'NOT' else PREC['NEG']
    else:
        return False
    pp = PREC[parent_op]
    if isinstance(child, Un):
        # a sign / NOT in operand position: keep it unparenthesised only where
        # every reading agrees (it binds tighter than the parent, left side)
        if side == 'l':
            return cp < pp or parent_op == '^'
        # right operand: '2 * -3' is fine; after ^ or for NOT be explicit
        if child.op == 'NOT':
            return cp < pp
        return parent_op == '^' or cp < pp
    if cp > pp:
        return False
    if cp < pp:
        return True
    # equal precedence: '^' is right associative, the rest left associative
    if parent_op == '^':
        return side == 'l'
    return side == 'r'


def expr(e):
    """source text of an expression with the minimal parentheses that keep
    its shape under REFSEM's precedence table"""
    if isinstance(e, Lit):
        return e.text
    if isinstance(e, Str):
        return '"' + e.value + '"'
    if isinstance(e, Var):
        return e.name
    if isinstance(e, Index):
        return e.name + '(' + ', '.join(expr(s) for s in e.subs) + ')'
    if isinstance(e, Field):
        return expr(e.base) + '.' + e.field
    if isinstance(e, Paren):
        return '(' + expr(e.e) + ')'
    if isinstance(e, ArrayArg):
        return e.name + '()'
    if isinstance(e, (Builtin, FnCall)):
        if not e.args:
            return e.name
        return e.name + '(' + ', '.join(expr(a) for a in e.args) + ')'
    if isinstance(e, Un):
        op = 'NOT' if e.op == 'NOT' else 'NEG'
        inner = e.e
        txt = expr(inner)
        need = False
        if isinstance(inner, Bin):
            need = PREC[inner.op] < PREC[op]
        elif isinstance(inner, Un):
            # '- -x', 'NOT NOT x', '- NOT x' would be readable by the grammar
            # but are not part of the reference subset without parentheses,
            # except NOT over a sign
            need = not (e.op == 'NOT' and inner.op != 'NOT')
        if need:
            txt = '(' + txt + ')'
        if e.op == 'NOT':
            return 'NOT ' + txt
        return e.op + txt
    if isinstance(e, Bin):
        l = expr(e.l)
        r = expr(e.r)
        if _needs_paren(e.l, e.op, 'l'):
            l = '(' + l + ')'
        if _needs_paren(e.r, e.op, 'r'):
            r = '(' + r + ')'
        return f'{l} {e.op} {r}'
    raise TypeError(f'cannot render {e!r}')


def _decl(d):
    s = d.name
    if d.dims is not None:
        parts = []
        for lo, hi in d.dims:
            parts.append(expr(hi) if lo is None else f'{expr(lo)} TO {expr(hi)}')
        s += '(' + ', '.join(parts) + ')'
    if d.astype:
        s += ' AS ' + d.astype
    return s


def _param(p):
    s = p.name + ('()' if p.array else '')
    if p.astype:
        s += ' AS ' + p.astype
    return s


def _label_text(t):
    return str(t)


def simple(s):
    """text of a statement that fits on one line (no block), or None"""
    if isinstance(s, Assign):
        return f'{expr(s.target)} = {expr(s.e)}'
    if isinstance(s, Print):
        out = 'PRINT'
        prev_expr = False
        for it in s.items:
            if it in (';', ','):
                out += it
                prev_expr = False
            else:
                if prev_expr:
                    raise TypeError('PRINT items need a separator between them')
                out += ' ' + expr(it)
                prev_expr = True
        return out
    if isinstance(s, Input):
        out = 'INPUT '
        if s.same_line:
            out += '; '
        if s.prompt is not None:
            out += '"' + s.prompt + '"' + (';' if s.question else ',') + ' '
        return out + ', '.join(expr(t) for t in s.targets)
    if isinstance(s, Exit):
        return 'EXIT ' + s.what
    if isinstance(s, Goto):
        return 'GOTO ' + _label_text(s.target)
    if isinstance(s, Gosub):
        return 'GOSUB ' + _label_text(s.target)
    if isinstance(s, Return):
        return 'RETURN' + ('' if s.target is None else ' ' + _label_text(s.target))
    if isinstance(s, End):
        return s.word
    if isinstance(s, Rem):
        return "'" + s.text
    if isinstance(s, Dim):
        return ('DIM SHARED ' if s.shared else 'DIM ') + ', '.join(_decl(d) for d in s.decls)
    if isinstance(s, Static):
        return 'STATIC ' + ', '.join(_decl(d) for d in s.decls)
    if isinstance(s, Const):
        return f'CONST {s.name} = {expr(s.e)}'
    if isinstance(s, DefType):
        return 'DEF' + s.kind + ' ' + ', '.join(a if b is None else f'{a}-{b}' for a, b in s.ranges)
    if isinstance(s, Declare):
        return f'DECLARE {s.kind} {s.name} (' + ', '.join(_param(p) for p in s.params) + ')'
    if isinstance(s, CallSub):
        args = ', '.join(expr(a) for a in s.args)
        if s.style == 'call':
            return f'CALL {s.name}' + (f'({args})' if s.args else '')
        return s.name + (' ' + args if s.args else '')
    if isinstance(s, Data):
        return 'DATA ' + ','.join(s.items)
    if isinstance(s, Read):
        return 'READ ' + ', '.join(expr(t) for t in s.targets)
    if isinstance(s, Restore):
        return 'RESTORE' + ('' if s.target is None else ' ' + _label_text(s.target))
    if isinstance(s, Randomize):
        return 'RANDOMIZE ' + expr(s.e)
    if isinstance(s, Dev):
        return _dev(s)
    if isinstance(s, IfLine):
        out = 'IF ' + expr(s.cond) + ' THEN ' + ': '.join(simple(t) for t in s.then)
        if s.else_ is not None:
            out += ' ELSE ' + ': '.join(simple(t) for t in s.else_)
        return out
    return None


def _dev(s):
    a = [None if x is None else expr(x) for x in s.args]
    k = s.kind
    if k in ('CLS', 'BEEP'):
        return k
    if k == 'DEFSEG':
        return 'DEF SEG' + ('' if not a else ' = ' + a[0])
    if k == 'VIEWPRINT':
        return 'VIEW PRINT' + ('' if not a else f' {a[0]} TO {a[1]}')
    if k in ('COLOR', 'LOCATE', 'SCREEN', 'WIDTH', 'SOUND', 'POKE', 'PLAY'):
        while a and a[-1] is None:
            a.pop()
        return k + ' ' + ', '.join('' if x is None else x for x in a)
    raise TypeError(k)


class _Out:
    def __init__(self):
        self.lines = []

    def add(self, text, node=None, attr='line'):
        self.lines.append(text)
        if node is not None:
            setattr(node, attr, len(self.lines))
        return len(self.lines)


def _set_line(stmts, n):
    for s in stmts:
        s.line = n
        if isinstance(s, IfLine):
            _set_line(s.then, n)
            if s.else_:
                _set_line(s.else_, n)


def _block(body, out, ind):
    for s in body:
        _stmt(s, out, ind)


def _stmt(s, out, ind=''):
    txt = simple(s)
    if txt is not None:
        n = out.add(ind + txt, s)
        if isinstance(s, IfLine):
            _set_line(s.then, n)
            if s.else_:
                _set_line(s.else_, n)
        return
    if isinstance(s, Label):
        out.add((str(s.name) + ':') if isinstance(s.name, str) else str(s.name), s)
        return
    if isinstance(s, If):
        s.arm_lines = []
        for i, (c, b) in enumerate(s.arms):
            n = out.add(ind + ('IF ' if i == 0 else 'ELSEIF ') + expr(c) + ' THEN')
            s.arm_lines.append(n)
            if i == 0:
                s.line = n
            _block(b, out, ind + '  ')
        s.else_line = None
        if s.else_body is not None:
            s.else_line = out.add(ind + 'ELSE')
            _block(s.else_body, out, ind + '  ')
        out.add(ind + 'END IF', s, 'end_line')
        return
    if isinstance(s, For):
        t = f'FOR {s.var} = {expr(s.a)} TO {expr(s.b)}'
        if s.step is not None:
            t += ' STEP ' + expr(s.step)
        out.add(ind + t, s)
        _block(s.body, out, ind + '  ')
        out.add(ind + 'NEXT' + (' ' + s.var if s.next_var else ''), s, 'end_line')
        return
    if isinstance(s, While):
        out.add(ind + 'WHILE ' + expr(s.cond), s)
        _block(s.body, out, ind + '  ')
        out.add(ind + 'WEND', s, 'end_line')
        return
    if isinstance(s, Do):
        head = 'DO'
        tail = 'LOOP'
        if s.kind == 'do_while':
            head += ' WHILE ' + expr(s.cond)
        elif s.kind == 'do_until':
            head += ' UNTIL ' + expr(s.cond)
        elif s.kind == 'loop_while':
            tail += ' WHILE ' + expr(s.cond)
        elif s.kind == 'loop_until':
            tail += ' UNTIL ' + expr(s.cond)
        out.add(ind + head, s)
        _block(s.body, out, ind + '  ')
        out.add(ind + tail, s, 'end_line')
        return
    if isinstance(s, Select):
        out.add(ind + 'SELECT CASE ' + expr(s.e), s)
        s.case_lines = []
        for clauses, body in s.cases:
            parts = []
            for cl in clauses:
                if cl[0] == 'val':
                    parts.append(expr(cl[1]))
                elif cl[0] == 'range':
                    parts.append(expr(cl[1]) + ' TO ' + expr(cl[2]))
                else:
                    parts.append('IS ' + cl[1] + ' ' + expr(cl[2]))
            s.case_lines.append(out.add(ind + 'CASE ' + ', '.join(parts)))
            _block(body, out, ind + '  ')
        if s.else_body is not None:
            out.add(ind + 'CASE ELSE')
            _block(s.else_body, out, ind + '  ')
        out.add(ind + 'END SELECT', s, 'end_line')
        return
    if isinstance(s, TypeDef):
        out.add(ind + 'TYPE ' + s.name, s)
        for f, t in s.fields:
            out.add(ind + '  ' + f + ' AS ' + t)
        out.add(ind + 'END TYPE')
        return
    if isinstance(s, Proc):
        head = f'{s.kind} {s.name}'
        if s.params:
            head += ' (' + ', '.join(_param(p) for p in s.params) + ')'
        if s.static:
            head += ' STATIC'
        out.add(head, s)
        _block(s.body, out, '  ')
        out.add('END ' + s.kind, s, 'end_line')
        return
    raise TypeError(f'cannot render statement {s!r}')


def render(prog):
    """Program (or list of statements) -> source text; sets .line on statements"""
    body = prog.body if isinstance(prog, Program) else prog
    out = _Out()
    for s in body:
        _stmt(s, out)
    return '\n'.join(out.lines) + '\n'
