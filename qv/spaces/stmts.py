"""Statement-level families of C01: F5 control flow, F6 FOR at the type limits,
F7 SELECT CASE, F8 procedures, F9 scoping / CONST / DEFtype, F10 arrays and
records, F11 device statements, F12 scripted environments.

A family is a list of small picklable descriptors; `BUILDERS[tag](desc)`
builds a `c01_oracle.Case` whose items are the programs.  Statement *specs*
are nested tuples; `mk(spec, ...)` turns a spec into fresh AST nodes (a node
must never occur twice in one program: `render` stores line numbers on it).
"""
import itertools

from . import ast as A
from ..c01_oracle import Item, Case
from ..ref import values as V
from ..ref.values import INTEGER, LONG, SINGLE, DOUBLE, STRING

SUF = V.SUFFIX_OF
NUM = [INTEGER, LONG, SINGLE, DOUBLE]
TNAME = {INTEGER: 'INTEGER', LONG: 'LONG', SINGLE: 'SINGLE', DOUBLE: 'DOUBLE', STRING: 'STRING'}


def L(text):
    return A.Lit(text)


def N(text):
    text = str(text)
    return A.Un('-', A.Lit(text[1:])) if text.startswith('-') else A.Lit(text)


def Vr(name):
    return A.Var(name)


def P(*items):
    """PRINT e1; e2; ...  (items separated by ';', newline at the end)"""
    out = []
    for i, it in enumerate(items):
        if i:
            out.append(';')
        out.append(it)
    return A.Print(out)


def Pn(*items):
    """PRINT e1; e2;   (no newline)"""
    out = []
    for it in items:
        out.append(it)
        out.append(';')
    return A.Print(out)


def inc(name, by='1'):
    return A.Assign(Vr(name), A.Bin('+', Vr(name), L(by)))


def let(name, e):
    return A.Assign(Vr(name), e)


# ---------------------------------------------------------------------------
# F5 control structures

F5_SIMPLE = [('p',), ('inc',), ('px',)]
F5_CONDS = ['x=0', 'x', 'x>1', 'notx']
F5_FORS = ['1to3', '3to1', '3to1s-1', 'f0to1s.5', '1to2.5', 'xtox+1']
F5_DOS = ['forever', 'do_while', 'do_until', 'loop_while', 'loop_until']


def _cond(c):
    if c == 'x=0':
        return A.Bin('=', Vr('x%'), L('0'))
    if c == 'x':
        return Vr('x%')
    if c == 'x>1':
        return A.Bin('>', Vr('x%'), L('1'))
    if c == 'notx':
        return A.Un('NOT', Vr('x%'))
    raise ValueError(c)


class _Ctx:
    """labels / subroutines collected while building one item"""

    def __init__(self):
        self.n = 0
        self.subs = []        # statements after END
        self.flags = set()

    def label(self):
        self.n += 1
        return 'lb%d' % self.n


def mk(spec, depth, cx, tagn):
    """spec -> list of fresh statements.  depth = nesting depth of the
    statement (selects the loop counter); tagn = running tag counter [n]"""
    k = spec[0]
    d = str(depth)
    if k == 'p':
        tagn[0] += 1
        return [A.Print([A.Str('t%d' % tagn[0])])]
    if k == 'inc':
        return [inc('x%')]
    if k == 'px':
        return [A.Print([Vr('x%')])]
    if k == 'exitfor':
        return [A.Exit('FOR')]
    if k == 'exitdo':
        return [A.Exit('DO')]
    if k == 'end':
        cx.flags.add('end')
        return [A.End()]
    if k == 'if':
        return [A.If([(_cond(spec[1]), mkl(spec[2], depth + 1, cx, tagn))])]
    if k == 'ifelse':
        return [A.If([(_cond(spec[1]), mkl(spec[2], depth + 1, cx, tagn))],
                     mkl(spec[3], depth + 1, cx, tagn))]
    if k == 'ifelif':
        return [A.If([(_cond(spec[1]), mkl(spec[2], depth + 1, cx, tagn)),
                      (_cond(spec[3]), mkl(spec[4], depth + 1, cx, tagn))],
                     mkl(spec[5], depth + 1, cx, tagn))]
    if k == 'ifl':
        return [A.IfLine(_cond(spec[1]), mkl(spec[2], depth, cx, tagn))]
    if k == 'iflelse':
        return [A.IfLine(_cond(spec[1]), mkl(spec[2], depth, cx, tagn), mkl(spec[3], depth, cx, tagn))]
    if k == 'for':
        m = spec[1]
        iv = 'i' + d + '%'
        body = mkl(spec[2], depth + 1, cx, tagn)
        if m == '1to3':
            f = A.For(iv, L('1'), L('3'), None, [Pn(Vr(iv))] + body)
        elif m == '3to1':
            f = A.For(iv, L('3'), L('1'), None, [Pn(Vr(iv))] + body)
        elif m == '3to1s-1':
            f = A.For(iv, L('3'), L('1'), N('-1'), [Pn(Vr(iv))] + body, next_var=True)
        elif m == 'f0to1s.5':
            iv = 'f' + d + '!'
            f = A.For(iv, L('0'), L('1'), L('0.5'), [Pn(Vr(iv))] + body)
        elif m == '1to2.5':
            f = A.For(iv, L('1'), L('2.5'), None, [Pn(Vr(iv))] + body)
        elif m == 'xtox+1':
            f = A.For(iv, Vr('x%'), A.Bin('+', Vr('x%'), L('1')), None, [Pn(Vr(iv))] + body)
        else:
            raise ValueError(m)
        return [f, A.Print([Vr(iv)])]
    if k == 'while':
        w = 'w' + d + '%'
        return [let(w, L('0')),
                A.While(A.Bin('<', Vr(w), L('2')), [inc(w)] + mkl(spec[1], depth + 1, cx, tagn))]
    if k == 'do':
        w = 'w' + d + '%'
        kind = spec[1]
        body = [inc(w)] + mkl(spec[2], depth + 1, cx, tagn)
        if kind == 'forever':
            body = [inc(w), A.IfLine(A.Bin('>', Vr(w), L('2')), [A.Exit('DO')])] + body[1:]
            c = None
        elif kind == 'do_while':
            c = A.Bin('<', Vr(w), L('2'))
        elif kind == 'do_until':
            c = A.Bin('>=', Vr(w), L('2'))
        elif kind == 'loop_while':
            c = A.Bin('-', L('2'), Vr(w))        # true values 2, 1 (not -1), false 0
        else:
            c = A.Bin('=', Vr(w), L('2'))
        return [let(w, L('0')), A.Do(kind, c, body)]
    if k == 'sel':
        tagn[0] += 1
        t = tagn[0]
        cases = [([('val', L('0'))], mkl(spec[2], depth + 1, cx, tagn)),
                 ([('range', L('1'), L('2'))], [A.Print([A.Str('r%d' % t)])]),
                 ([('is', '>', L('2'))], [A.Print([A.Str('g%d' % t)])])]
        if spec[1] == 'else':
            return [A.Select(Vr('x%'), cases, [A.Print([A.Str('e%d' % t)])])]
        return [A.Select(A.Bin('-', Vr('x%'), L('5')), cases)]
    if k == 'gosub':
        lb = cx.label()
        sub = [A.Label(lb)] + mkl(spec[1], 0, cx, tagn) + [A.Return()]
        cx.subs.extend(sub)
        cx.flags.add('label')
        return [A.Gosub(lb)]
    if k == 'gosubn':
        cx.n += 1
        num = 100 + cx.n
        sub = [A.Label(num)] + mkl(spec[1], 0, cx, tagn) + [A.Return()]
        cx.subs.extend(sub)
        cx.flags.add('label')
        return [A.Gosub(num)]
    if k == 'goto':
        # forward jump over the body; only legal at depth 0 for the label,
        # the GOTO itself may be nested (cx.pending is flushed at top level)
        lb = cx.label()
        cx.flags.add('label')
        if depth == 0:
            return [A.Goto(lb)] + mkl(spec[1], depth, cx, tagn) + [A.Label(lb)]
        cx.pending = getattr(cx, 'pending', []) + [lb]
        return [A.Goto(lb)]
    raise ValueError(spec)


def mkl(specs, depth, cx, tagn):
    out = []
    for s in specs:
        out.extend(mk(s, depth, cx, tagn))
    return out


def _f5_blocks(bodies, in_for, in_do, tier):
    """all block statements whose bodies come from `bodies` (list of spec lists)"""
    out = []
    q = tier == 'quick'
    one = bodies[0]
    conds = F5_CONDS
    for b in bodies:
        for c in conds:
            out.append(('if', c, b))
        out.append(('ifelse', 'x', b, [('p',)]))
        out.append(('ifelse', 'x=0', [('p',)], b))
        out.append(('ifelif', 'x', [('p',)], 'x=0', b, [('px',)]))
        for m in F5_FORS:
            out.append(('for', m, b))
        out.append(('for', '1to3', b + [('exitfor',)]))
        out.append(('while', b))
        for kd in F5_DOS:
            out.append(('do', kd, b))
        out.append(('do', 'loop_until', b + [('exitdo',)]))
        out.append(('sel', 'else', b))
        out.append(('sel', 'none', b))
        out.append(('gosub', b))
        out.append(('goto', b))
    # one-line IF: bodies of simple statements only
    for c in (conds if not q else ['x', 'notx']):
        out.append(('ifl', c, [('inc',), ('p',)]))
        out.append(('iflelse', c, [('p',)], [('inc',)]))
    out.append(('gosubn', one))
    return out


def _has(spec, kinds):
    if isinstance(spec, tuple):
        if spec and spec[0] in kinds:
            return True
        return any(_has(x, kinds) for x in spec[1:])
    if isinstance(spec, list):
        return any(_has(x, kinds) for x in spec)
    return False


def _f5_stmts(tier):
    """(level-1 statements, level-2 statements) as spec lists"""
    simple = list(F5_SIMPLE)
    if tier == 'quick':
        bodies0 = [[s] for s in simple]
    else:
        bodies0 = [[s] for s in simple] + [[a, b] for a in simple for b in simple]
    lvl1 = simple + _f5_blocks(bodies0, False, False, tier)
    # level 2: blocks whose single body statement is a level-1 *block*
    inner = [s for s in lvl1 if s[0] not in ('p', 'inc', 'px')]
    if tier == 'quick':
        # bodies of one block statement; the inner block's own body is the
        # first simple statement only (keeps quick small)
        inner = [s for s in inner if not _has(list(s[1:]), ('inc', 'px')) or s[0] in ('ifl', 'iflelse')]
    bodies1 = [[s] for s in inner if not _has(s, ('goto',))]
    lvl2 = _f5_blocks(bodies1, False, False, tier)
    lvl2 = [s for s in lvl2 if s[0] not in ('ifl', 'iflelse', 'gosubn')]
    return lvl1, lvl2


def _f5_programs(tier):
    """list of (spec list, shape tag) in size order"""
    lvl1, lvl2 = _f5_stmts(tier)
    progs = []
    for s in lvl1:
        progs.append([s])
    # pairs: second statement from the blocks whose body is the first simple
    # statement only (plus the simple statements)
    second = [s for s in lvl1 if not _has(list(s[1:]), ('inc', 'px')) or s[0] in ('ifl', 'iflelse')]
    for a in lvl1:
        for b in second:
            if a[0] in ('p', 'px') and b[0] in ('p', 'px'):
                continue
            progs.append([a, b])
    for s in lvl2:
        progs.append([s])
    if tier != 'quick':
        blocks1 = [s for s in lvl1 if s[0] not in ('p', 'inc', 'px')]
        small = [s for s in blocks1 if not _has(list(s[1:]), ('inc', 'px')) and s[0] not in ('ifl', 'iflelse')]
        for s in lvl2:
            progs.append([('inc',), s])
        for a in small:
            for b in small:
                for c in (('inc',), ('end',)):
                    progs.append([a, c, b])
    return progs


def _kinds(spec, out):
    if isinstance(spec, tuple):
        if spec and isinstance(spec[0], str) and spec[0] not in F5_CONDS + F5_FORS + F5_DOS:
            out.append(spec[0] if spec[0] != 'do' else 'do-' + spec[1])
        for x in spec[1:]:
            _kinds(x, out)
    elif isinstance(spec, list):
        for x in spec:
            _kinds(x, out)
    return out


F5_CHUNK = 48


def f5_descs(tier):
    n = len(_f5_programs(tier))
    return [('F5', tier, i) for i in range(0, n, F5_CHUNK)]


_F5_CACHE = {}


def build_f5(d):
    _, tier, start = d
    progs = _F5_CACHE.get(tier)
    if progs is None:
        progs = _F5_CACHE[tier] = _f5_programs(tier)
    items = []
    for idx in range(start, min(start + F5_CHUNK, len(progs))):
        specs = progs[idx]
        items.append(_f5_item(specs, idx))
    return Case('F5', items)


def _f5_item(specs, idx):
    cx = _Ctx()
    tagn = [0]
    body = [let('x%', L('0'))]
    for s in specs:
        body.extend(mk(s, 0, cx, tagn))
        for lb in getattr(cx, 'pending', []):
            body.append(A.Label(lb))
        cx.pending = []
    body.append(P(A.Str('x='), Vr('x%')))
    kinds = _kinds(specs, [])
    post = None
    if cx.subs:
        body.append(A.End())
        body.extend(cx.subs)
    feat = {'construct': 'control', 'key': 'F5#%d %s' % (idx, '/'.join(kinds)),
            'uses': sorted(set(kinds) - {'p', 'inc', 'px'})}
    it = Item(body, feat, size=len(repr(specs)), post=post)
    if cx.flags:
        it.script = {}          # not packable: labels / END are program-wide
    return it


# ---------------------------------------------------------------------------
# F5c truth of a condition: every conditional construct x typed values
# (true iff non-zero; the value is not rounded or narrowed first)

F5C_FORMS = ['if', 'ifl', 'elseif', 'while', 'do_while', 'do_until', 'loop_while', 'loop_until']
F5C_VALUES = {
    INTEGER: ['0', '2', '-1', '32767'],
    LONG: ['0', '2', '70000', '-70000'],
    SINGLE: ['0', '0.4', '-0.4', '0.5', '0.6', '1.5', '70000.5', '1E-30'],
    DOUBLE: ['0', '0.4', '-0.5', '2.5', '1D-300', '3000000000'],
}


def _cond_class(t, v):
    x = float(v.replace('D', 'E'))
    if x == 0:
        return 'zero'
    if t in (SINGLE, DOUBLE) and abs(x) <= 0.5:
        return 'rounds-to-zero'
    if t != INTEGER and abs(x) > 32767.5:
        return 'beyond-integer'
    return 'plain'


def f5c_descs(tier):
    return [('F5c', tier, form) for form in F5C_FORMS]


def build_f5c(d):
    _, tier, form = d
    items = []
    for t in NUM:
        c = 'c' + SUF[t]
        for v in F5C_VALUES[t]:
            for shape in ('var', 'expr'):
                cond = (lambda: Vr(c)) if shape == 'var' else (lambda: A.Bin('*', Vr(c), L('1')))
                T = lambda: [A.Print([A.Str('T')])]
                F = lambda: [A.Print([A.Str('F')])]
                pre = [let(c, N(v)), let('n%', L('0'))]
                guard = lambda: [inc('n%'), A.IfLine(A.Bin('>', Vr('n%'), L('2')), [A.Exit('DO')])]
                if form == 'if':
                    body = [A.If([(cond(), T())], F())]
                elif form == 'ifl':
                    body = [A.IfLine(cond(), T(), F())]
                elif form == 'elseif':
                    body = [A.If([(A.Bin('>', Vr('n%'), L('0')), [A.Print([A.Str('no')])]), (cond(), T())], F())]
                elif form == 'while':
                    body = [A.While(cond(), [inc('n%'), let(c, L('0'))])]
                else:
                    body = [A.Do(form, cond(), guard())]
                body.append(P(A.Str('n='), Vr('n%')))
                feat = {'construct': 'condition', 'form': form, 'lt': t, 'cond_class': _cond_class(t, v),
                        'shape': shape, 'key': 'F5c %s %s %s %s' % (form, t, v, shape)}
                items.append(Item(pre + body, feat, size=len(v)))
    return Case('F5', items)


# ---------------------------------------------------------------------------
# F6 FOR at the type limits

F6_MENU = {
    INTEGER: [('32765', '32767', None), ('32766', '32767', '2'), ('-32767', '-32768', '-1'),
              ('-32766', '-32768', '-2'), ('1', '2', '0.4'), ('1', '3', '1.5'), ('0', '2.5', None),
              ('0.5', '3.5', None), ('5', '1', None), ('1', '1', None), ('32767', '32767', '-1'),
              ('1', '40000', '20000'), ('-20000', '20000', '10000'), ('20000', '-20000', '-10000'),
              ('-32768', '-32768', '-1'), ('-32768', '-32767', None)],
    LONG: [('2147483645', '2147483647', None), ('-2147483647', '-2147483648', '-1'),
           ('1', '3', '1.5'), ('0', '2.5', None), ('70000', '1', '-30000'), ('1', '1', '0.5'),
           ('-2000000000', '2000000000', '1000000000'), ('-2147483648', '-2147483647', None)],
    SINGLE: [('0', '1', '0.25'), ('1', '0', '-0.5'), ('0', '0.3', '0.1'), ('16777215', '16777217', None),
             ('1', '2', '0.4'), ('3.402823E+38', '3.402823E+38', '1E+38'), ('2', '1', None)],
    DOUBLE: [('0', '1', '0.25'), ('0', '0.3', '0.1'), ('1', '0', '-0.5'),
             ('1.7976931348623157D+308', '1.7976931348623157D+308', '1D+308'), ('2', '1', None)],
}


def _for_hazard(t, a, b, s):
    """input-side class: does a naive 'normalise by the sign of the step' loop
    leave the counter's type although every value the loop needs fits?"""
    if t not in V.LIMITS:
        return 'none'
    lo, hi = V.LIMITS[t]
    r = V.round_half_even
    try:
        fa, fb = r(float(a)), r(float(b))
        fs = 1 if s is None else r(float(s))
    except Exception:
        return 'none'
    if not (lo <= fa <= hi and lo <= fb <= hi and lo <= fs <= hi):
        return 'none'
    if not lo <= fb - fa <= hi:
        return 'span-beyond-type'
    if fs < 0 and lo in (fa, fb):
        return 'negated-limit'
    return 'none'


def f6_descs(tier):
    return [('F6', tier, t) for t in NUM]


def build_f6(d):
    _, tier, t = d
    v = 'c' + SUF[t]
    items = []
    for form in ('lit', 'var'):
        for a, b, s in F6_MENU[t]:
            pre = []
            if form == 'lit':
                ea, eb, es = N(a), N(b), (None if s is None else N(s))
            else:
                # bounds through DOUBLE variables: converted to the counter's type
                pre = [let('a#', N(a)), let('b#', N(b))]
                ea, eb = Vr('a#'), Vr('b#')
                es = None
                if s is not None:
                    pre.append(let('s#', N(s)))
                    es = Vr('s#')
            body = [let('n%', L('0'))] + pre + [
                A.For(v, ea, eb, es, [Pn(Vr(v)), inc('n%'),
                                      A.IfLine(A.Bin('>', Vr('n%'), L('5')), [A.Exit('FOR')])]),
                P(A.Str('end'), Vr(v), Vr('n%'))]
            feat = {'construct': 'for-limits', 'lt': t, 'form': form, 'restype': t,
                    'hazard': _for_hazard(t, a, b, s),
                    'bounds': '%s TO %s STEP %s' % (a, b, s), 'key': 'F6 %s %s %s %s %s' % (t, form, a, b, s)}
            items.append(Item(body, feat, size=len(a) + len(b)))
    return Case('F6', items)


# ---------------------------------------------------------------------------
# F7 SELECT CASE

F7_SEL = {
    INTEGER: ['0', '2', '-7'],
    LONG: ['2', '70000'],
    SINGLE: ['2', '2.5', '0.1'],
    DOUBLE: ['2', '2.5', '0.1'],
    STRING: ['b', '', 'ab'],
}
F7_CLAUSES_NUM = [
    ('val', '2'), ('val', '2.5'), ('val', '2.4'), ('val', '0.1'), ('val', '70000'), ('val', '0.1#'),
    ('range', '1', '3'), ('range', '3', '1'), ('range', '2.5', '2.5'), ('range', '-10', '0'),
    ('is', '<', '2'), ('is', '>=', '2.5'), ('is', '<>', '2'), ('is', '=', '70000'),
    ('list', ('val', '1'), ('range', '2', '3')), ('list', ('is', '<', '0'), ('val', '2.5')),
    ('list', ('val', '70000'), ('val', '2')),
]
F7_CLAUSES_STR = [
    ('val', 'b'), ('val', ''), ('range', 'a', 'c'), ('range', '', 'a'), ('is', '<', 'b'),
    ('is', '>=', 'ab'), ('list', ('val', 'x'), ('val', 'ab')), ('is', '<>', ''),
]


def _clause(cl, string):
    mkv = (lambda t: A.Str(t)) if string else N
    if cl[0] == 'val':
        return [('val', mkv(cl[1]))]
    if cl[0] == 'range':
        return [('range', mkv(cl[1]), mkv(cl[2]))]
    if cl[0] == 'is':
        return [('is', cl[1], mkv(cl[2]))]
    out = []
    for c in cl[1:]:
        out.extend(_clause(c, string))
    return out


def f7_descs(tier):
    return [('F7', tier, t) for t in NUM + [STRING]]


def build_f7(d):
    _, tier, t = d
    string = t == STRING
    clauses = F7_CLAUSES_STR if string else F7_CLAUSES_NUM
    items = []
    sv = 's' + SUF[t]
    for sel in F7_SEL[t]:
        for i, c1 in enumerate(clauses):
            seconds = clauses if tier != 'quick' else [clauses[(i + 1) % len(clauses)], clauses[(i + 5) % len(clauses)]]
            for c2 in seconds:
                for with_else in (True, False):
                    if tier == 'quick' and not with_else and c2 is not seconds[0]:
                        continue
                    cases = [(_clause(c1, string), [A.Print([A.Str('one')])]),
                             (_clause(c2, string), [A.Print([A.Str('two')])])]
                    st = A.Select(Vr(sv), cases, [A.Print([A.Str('else')])] if with_else else None)
                    body = [let(sv, A.Str(sel) if string else N(sel)), st, A.Print([A.Str('after')])]
                    feat = {'construct': 'select', 'lt': t, 'c1': c1[0], 'c2': c2[0],
                            'key': 'F7 %s %s %r %r %s' % (t, sel, c1, c2, with_else)}
                    items.append(Item(body, feat, size=len(repr(c1)) + len(repr(c2))))
    # selector is an expression / literal (folding) - one clause set
    if not string:
        for e in (A.Bin('+', Vr(sv), L('1')), A.Bin('/', Vr(sv), L('2')), L('2'), L('2.5')):
            cases = [(_clause(('val', '3'), False), [A.Print([A.Str('one')])]),
                     (_clause(('range', '1', '2.5'), False), [A.Print([A.Str('two')])])]
            st = A.Select(e, cases, [A.Print([A.Str('else')])])
            body = [let(sv, N('2')), st]
            feat = {'construct': 'select', 'lt': t, 'c1': 'expr-selector', 'c2': 'range',
                    'key': 'F7 %s expr %s' % (t, A.expr(e))}
            items.append(Item(body, feat, size=20))
    return Case('F7', items)


# ---------------------------------------------------------------------------
# F8 procedures

ARG_FORMS = ['var', 'elem', 'field', 'lit', 'expr', 'paren', 'othertype']
BODY_ACTIONS = ['write', 'read', 'exit', 'static', 'shared', 'shadow', 'recurse', 'nested-call']


def f8_descs(tier):
    out = []
    types = [INTEGER, SINGLE, STRING] if tier == 'quick' else NUM + [STRING]
    for kind in ('SUB', 'FUNCTION'):
        for t in types:
            for style in (('call', 'bare') if kind == 'SUB' else ('expr',)):
                for decl in (False, True):
                    out.append(('F8', tier, kind, t, style, decl))
    for t in ([INTEGER, DOUBLE] if tier == 'quick' else NUM):
        out.append(('F8r', tier, t))
    out.append(('F8m', tier))
    return out


def _val_of(t, k=0):
    if t == STRING:
        return A.Str(['s0', 's1', 's2'][k])
    return N(['5', '7', '9'][k] if t in (INTEGER, LONG) else ['2.5', '7.25', '9.5'][k])


def _bump(t, e):
    """expression 'e changed' of type t"""
    if t == STRING:
        return A.Bin('+', e, A.Str('!'))
    return A.Bin('+', e, L('1'))


def build_f8(d):
    _, tier, kind, t, style, decl = d
    s = SUF[t]
    pname = 'p' + s
    fname = 'fq' + s if kind == 'FUNCTION' else 'sb'
    items = []
    other = {INTEGER: LONG, LONG: INTEGER, SINGLE: DOUBLE, DOUBLE: SINGLE, STRING: STRING}[t]
    for action in BODY_ACTIONS:
        for form in ARG_FORMS:
            if form == 'othertype' and t == STRING:
                continue
            pre = []
            # argument
            if form == 'var':
                arg = Vr('v' + s)
                setup = [let('v' + s, _val_of(t))]
                show = [A.Print([Vr('v' + s)])]
            elif form == 'elem':
                pre = [A.Dim([A.Decl('ar' + s, [(None, L('3'))])])]
                arg = A.Index('ar' + s, [L('2')])
                setup = [A.Assign(A.Index('ar' + s, [L('2')]), _val_of(t))]
                show = [P(A.Index('ar' + s, [L('1')]), A.Index('ar' + s, [L('2')]), A.Index('ar' + s, [L('3')]))]
            elif form == 'field':
                pre = [A.TypeDef('rt', [('fa', 'INTEGER'), ('fv', TNAME[t] if t != STRING else 'LONG'),
                                        ('fz', 'INTEGER')]),
                       A.Dim([A.Decl('rc', None, 'rt')])]
                if t == STRING:
                    continue
                arg = A.Field(Vr('rc'), 'fv')
                setup = [A.Assign(A.Field(Vr('rc'), 'fv'), _val_of(t))]
                show = [P(A.Field(Vr('rc'), 'fa'), A.Field(Vr('rc'), 'fv'), A.Field(Vr('rc'), 'fz'))]
            elif form == 'lit':
                arg = _val_of(t, 1)
                setup = []
                show = []
            elif form == 'expr':
                arg = _bump(t, Vr('v' + s))
                setup = [let('v' + s, _val_of(t))]
                show = [A.Print([Vr('v' + s)])]
            elif form == 'paren':
                arg = A.Paren(Vr('v' + s))
                setup = [let('v' + s, _val_of(t))]
                show = [A.Print([Vr('v' + s)])]
            else:   # expression of another numeric type: converted into a temporary
                arg = A.Bin('+', Vr('o' + SUF[other]), L('0'))
                setup = [let('o' + SUF[other], N('6'))]
                show = [A.Print([Vr('o' + SUF[other])])]
            # body
            body = []
            extra_pre = []
            if action == 'write':
                body = [A.Print([Vr(pname)]), let(pname, _bump(t, Vr(pname))), A.Print([Vr(pname)])]
            elif action == 'read':
                body = [A.Print([Vr(pname)])]
            elif action == 'exit':
                body = [let(pname, _bump(t, Vr(pname))), A.Exit(kind), let(pname, _val_of(t, 2))]
            elif action == 'static':
                body = [A.Static([A.Decl('cnt%')]), inc('cnt%'), P(A.Str('cnt'), Vr('cnt%')),
                        let(pname, _bump(t, Vr(pname)))]
            elif action == 'shared':
                extra_pre = [A.Dim([A.Decl('g' + s)], shared=True)]
                body = [let('g' + s, Vr(pname)), let(pname, _bump(t, Vr(pname))), A.Print([Vr('g' + s)])]
            elif action == 'shadow':
                # a local with the name of a module-level variable is a different variable
                body = [A.Print([Vr('v' + s)]), let('v' + s, _val_of(t, 2)), let(pname, _bump(t, Vr(pname)))]
            elif action == 'recurse':
                body = [A.Static([A.Decl('dep%')]), inc('dep%'),
                        P(A.Str('in'), Vr('dep%'), Vr(pname))]
                rec_arg = Vr(pname)
                if kind == 'SUB':
                    body.append(A.IfLine(A.Bin('<', Vr('dep%'), L('3')),
                                         [A.CallSub(fname, [rec_arg], 'call')]))
                else:
                    body.append(A.IfLine(A.Bin('<', Vr('dep%'), L('3')),
                                         [let('tmp' + s, A.FnCall(fname, [rec_arg]))]))
                body.append(let(pname, _bump(t, Vr(pname))))
                body.append(P(A.Str('out'), Vr(pname)))
            elif action == 'nested-call':
                body = [A.CallSub('helper', [Vr(pname)], 'call'), A.Print([Vr(pname)])]
            if kind == 'FUNCTION' and action != 'exit':
                body.append(let(fname, Vr(pname)))
            elif kind == 'FUNCTION':
                body.insert(1, let(fname, Vr(pname)))
            procs = [A.Proc(kind, fname, [A.Param(pname)], body)]
            if action == 'nested-call':
                procs.append(A.Proc('SUB', 'helper', [A.Param('q' + s)],
                                    [let('q' + s, _bump(t, Vr('q' + s)))]))
            decls = []
            if decl:
                decls = [A.Declare(kind, fname, [A.Param(pname)])]
                if action == 'nested-call':
                    decls.append(A.Declare('SUB', 'helper', [A.Param('q' + s)]))
            if kind == 'SUB':
                calls = [A.CallSub(fname, [arg], style)]
                if action in ('static', 'recurse'):
                    calls = calls + [A.CallSub(fname, [_copy_arg(form, s, other)], style)]
            else:
                calls = [A.Print([A.FnCall(fname, [arg])])]
                if action in ('static', 'recurse'):
                    calls = calls + [A.Print([A.FnCall(fname, [_copy_arg(form, s, other)])])]
            stmts = setup + calls + show
            feat = {'construct': 'procedure', 'kind': kind, 'lt': t, 'arg': form, 'action': action,
                    'style': style, 'declare': decl,
                    'key': 'F8 %s %s %s %s %s %s' % (kind, t, style, decl, action, form)}
            items.append(Item(stmts, feat, size=len(form) + len(action),
                              pre=decls + pre + extra_pre, post=[A.End()] + procs, script={}))
    return Case('F8', items, packable=False)


def _copy_arg(form, s, other):
    """a second, fresh argument expression of the same form"""
    t = V.SUFFIX[s]
    if form == 'var':
        return Vr('v' + s)
    if form == 'elem':
        return A.Index('ar' + s, [L('2')])
    if form == 'field':
        return A.Field(Vr('rc'), 'fv')
    if form == 'lit':
        return _val_of(t, 1)
    if form == 'expr':
        return _bump(t, Vr('v' + s))
    if form == 'paren':
        return A.Paren(Vr('v' + s))
    return A.Bin('+', Vr('o' + SUF[other]), L('0'))


def build_f8r(d):
    """recursion with results: factorial / fibonacci / mutual recursion / by-ref accumulators"""
    _, tier, t = d
    s = SUF[t]
    items = []
    ns = ['0', '1', '5'] if tier == 'quick' else ['0', '1', '2', '5', '8']
    for n in ns:
        # factorial as FUNCTION (overflows for INTEGER at 8)
        fact = A.Proc('FUNCTION', 'fact' + s, [A.Param('n' + s)], [
            A.If([(A.Bin('<=', Vr('n' + s), L('1')), [let('fact' + s, L('1'))])],
                 [let('fact' + s, A.Bin('*', Vr('n' + s), A.FnCall('fact' + s, [A.Bin('-', Vr('n' + s), L('1'))])))])])
        items.append(Item([A.Print([A.FnCall('fact' + s, [N(n)])])],
                          {'construct': 'recursion', 'shape': 'fact', 'lt': t, 'key': 'F8r fact %s %s' % (t, n)},
                          size=int(n), post=[A.End(), fact], script={}))
        # fibonacci (two recursive calls in one expression)
        fib = A.Proc('FUNCTION', 'fib' + s, [A.Param('n' + s)], [
            A.If([(A.Bin('<', Vr('n' + s), L('2')), [let('fib' + s, Vr('n' + s))])],
                 [let('fib' + s, A.Bin('+', A.FnCall('fib' + s, [A.Bin('-', Vr('n' + s), L('1'))]),
                                       A.FnCall('fib' + s, [A.Bin('-', Vr('n' + s), L('2'))])))])])
        items.append(Item([A.Print([A.FnCall('fib' + s, [N(n)])])],
                          {'construct': 'recursion', 'shape': 'fib', 'lt': t, 'key': 'F8r fib %s %s' % (t, n)},
                          size=int(n), post=[A.End(), fib], script={}))
        # by-reference accumulator through the recursion, locals fresh per activation
        acc = A.Proc('SUB', 'walk', [A.Param('n%'), A.Param('acc' + s)], [
            let('lc' + s, Vr('n%')),
            A.If([(A.Bin('>', Vr('n%'), L('0')),
                   [A.CallSub('walk', [A.Bin('-', Vr('n%'), L('1')), Vr('acc' + s)], 'call')])]),
            let('acc' + s, A.Bin('+', Vr('acc' + s), Vr('lc' + s))),
            Pn(Vr('lc' + s))])
        items.append(Item([let('tot' + s, L('100')), A.CallSub('walk', [N(n), Vr('tot' + s)], 'bare'),
                           A.Print([Vr('tot' + s)])],
                          {'construct': 'recursion', 'shape': 'byref-acc', 'lt': t,
                           'key': 'F8r walk %s %s' % (t, n)},
                          size=int(n), post=[A.End(), acc], script={}))
        # mutual recursion
        ev = A.Proc('FUNCTION', 'isev%', [A.Param('n' + s)], [
            A.If([(A.Bin('=', Vr('n' + s), L('0')), [let('isev%', N('-1'))])],
                 [let('isev%', A.FnCall('isod%', [A.Bin('-', Vr('n' + s), L('1'))]))])])
        od = A.Proc('FUNCTION', 'isod%', [A.Param('n' + s)], [
            A.If([(A.Bin('=', Vr('n' + s), L('0')), [let('isod%', L('0'))])],
                 [let('isod%', A.FnCall('isev%', [A.Bin('-', Vr('n' + s), L('1'))]))])])
        items.append(Item([P(A.FnCall('isev%', [N(n)]), A.FnCall('isod%', [N(n)]))],
                          {'construct': 'recursion', 'shape': 'mutual', 'lt': t, 'key': 'F8r mutual %s %s' % (t, n)},
                          size=int(n),
                          pre=[A.Declare('FUNCTION', 'isev%', [A.Param('n' + s)]),
                               A.Declare('FUNCTION', 'isod%', [A.Param('n' + s)])],
                          post=[A.End(), ev, od], script={}))
    return Case('F8', items, packable=False)


def build_f8m(d):
    """two parameters; array of records element by reference inside a recursive SUB;
    whole arrays and records as parameters"""
    _, tier = d
    items = []
    rt = A.TypeDef('pt', [('px', 'INTEGER'), ('py', 'LONG')])

    def add(key, pre, stmts, procs, shape):
        items.append(Item(stmts, {'construct': 'procedure-multi', 'shape': shape, 'key': 'F8m ' + key},
                          size=len(key), pre=pre, post=[A.End()] + procs, script={}))
    # swap with two by-ref params, every pair of argument forms
    swap = lambda: A.Proc('SUB', 'swp', [A.Param('a%'), A.Param('b%')],
                          [let('t%', Vr('a%')), let('a%', Vr('b%')), let('b%', Vr('t%'))])
    forms = {
        'var': (lambda: Vr('u%'), lambda: Vr('w%')),
        'elem': (lambda: A.Index('ar%', [L('1')]), lambda: A.Index('ar%', [L('2')])),
        'field': (lambda: A.Field(Vr('r1'), 'px'), lambda: A.Field(Vr('r2'), 'px')),
        'recelem': (lambda: A.Field(A.Index('rs', [L('1')]), 'px'), lambda: A.Field(A.Index('rs', [L('2')]), 'px')),
        'paren': (lambda: A.Paren(Vr('u%')), lambda: A.Paren(Vr('w%'))),
    }
    pre_all = [rt, A.Dim([A.Decl('ar%', [(None, L('3'))])]), A.Dim([A.Decl('r1', None, 'pt')]),
               A.Dim([A.Decl('r2', None, 'pt')]), A.Dim([A.Decl('rs', [(L('1'), L('2'))], 'pt')])]

    def setup():
        return [let('u%', L('1')), let('w%', L('2')),
                A.Assign(A.Index('ar%', [L('1')]), L('11')), A.Assign(A.Index('ar%', [L('2')]), L('12')),
                A.Assign(A.Field(Vr('r1'), 'px'), L('21')), A.Assign(A.Field(Vr('r2'), 'px'), L('22')),
                A.Assign(A.Field(A.Index('rs', [L('1')]), 'px'), L('31')),
                A.Assign(A.Field(A.Index('rs', [L('2')]), 'px'), L('32'))]

    def show():
        return [P(Vr('u%'), Vr('w%'), A.Index('ar%', [L('1')]), A.Index('ar%', [L('2')]),
                  A.Field(Vr('r1'), 'px'), A.Field(Vr('r2'), 'px'),
                  A.Field(A.Index('rs', [L('1')]), 'px'), A.Field(A.Index('rs', [L('2')]), 'px'))]
    for f1, f2 in itertools.product(forms, repeat=2):
        for style in ('call', 'bare'):
            if tier == 'quick' and style == 'bare' and f1 != f2:
                continue
            add('swap %s %s %s' % (f1, f2, style), [x for x in _fresh_pre(pre_all)],
                setup() + [A.CallSub('swp', [forms[f1][0](), forms[f2][1]()], style)] + show(),
                [swap()], 'swap')
    # same variable passed twice (aliasing)
    add('alias', [], [let('u%', L('1')), A.CallSub('swp2', [Vr('u%'), Vr('u%')], 'call'), A.Print([Vr('u%')])],
        [A.Proc('SUB', 'swp2', [A.Param('a%'), A.Param('b%')],
                [let('a%', A.Bin('+', Vr('a%'), L('1'))), let('b%', A.Bin('*', Vr('b%'), L('10')))])], 'alias')
    # record parameter and element of an array of records, recursive
    recp = A.Proc('SUB', 'bump', [A.Param('p', 'pt'), A.Param('n%')], [
        A.Assign(A.Field(Vr('p'), 'px'), A.Bin('+', A.Field(Vr('p'), 'px'), Vr('n%'))),
        A.Assign(A.Field(Vr('p'), 'py'), A.Bin('+', A.Field(Vr('p'), 'py'), L('100000'))),
        A.IfLine(A.Bin('>', Vr('n%'), L('1')), [A.CallSub('bump', [Vr('p'), A.Bin('-', Vr('n%'), L('1'))], 'call')])])
    for target in ('rec', 'recelem'):
        tgt = (lambda: Vr('r1')) if target == 'rec' else (lambda: A.Index('rs', [L('2')]))
        add('recparam ' + target, _fresh_pre(pre_all),
            [let('k%', L('7')), A.CallSub('bump', [tgt(), L('3')], 'call'),
             P(A.Field(tgt(), 'px'), A.Field(tgt(), 'py'), Vr('k%'), A.Field(Vr('r2'), 'px'),
               A.Field(A.Index('rs', [L('1')]), 'px'))],
            [recp] if target == 'rec' else [A.Proc('SUB', 'bump', [A.Param('p', 'pt'), A.Param('n%')], [
                A.Assign(A.Field(Vr('p'), 'px'), A.Bin('+', A.Field(Vr('p'), 'px'), Vr('n%'))),
                A.Assign(A.Field(Vr('p'), 'py'), A.Bin('+', A.Field(Vr('p'), 'py'), L('100000'))),
                A.IfLine(A.Bin('>', Vr('n%'), L('1')),
                         [A.CallSub('bump', [Vr('p'), A.Bin('-', Vr('n%'), L('1'))], 'call')])])],
            'record-param')
    # whole array parameter
    for lo, hi in (('0', '3'), ('2', '4')):
        add('arrparam %s %s' % (lo, hi), [A.Dim([A.Decl('da&', [(L(lo), L(hi))])])],
            [A.Assign(A.Index('da&', [L('2')]), L('5')), A.Assign(A.Index('da&', [L('3')]), L('70000')),
             A.CallSub('total', [A.ArrayArg('da&')], 'call'),
             A.Print([A.Index('da&', [L(hi)])])],
            [A.Proc('SUB', 'total', [A.Param('q&', None, True)], [
                let('s&', L('0')),
                A.For('i%', A.Builtin('LBOUND', [Vr('q&')]), A.Builtin('UBOUND', [Vr('q&')]), None,
                      [let('s&', A.Bin('+', Vr('s&'), A.Index('q&', [Vr('i%')])))]),
                A.Print([Vr('s&')]),
                A.Assign(A.Index('q&', [A.Builtin('UBOUND', [Vr('q&')])]), Vr('s&'))])],
            'array-param')
    # function with two params of different types, argument conversion per position
    for a1, a2 in itertools.product(['2', '2.5', '3.5', '40000'], ['1', '0.5', '1D+39']):
        add('mix %s %s' % (a1, a2), [],
            [A.Print([A.FnCall('mix#', [N(a1), N(a2)])])],
            [A.Proc('FUNCTION', 'mix#', [A.Param('a%'), A.Param('b!')],
                    [let('mix#', A.Bin('+', A.Bin('*', Vr('a%'), L('10')), Vr('b!')))])], 'convert-args')
    return Case('F8', items, packable=False)


def _fresh_pre(pre_all):
    """declarations are rebuilt per item (nodes are not shared)"""
    out = []
    for s in pre_all:
        if isinstance(s, A.TypeDef):
            out.append(A.TypeDef(s.name, list(s.fields)))
        else:
            out.append(A.Dim([A.Decl(dd.name, None if dd.dims is None else
                                     [(None if lo is None else L(lo.text), L(hi.text)) for lo, hi in dd.dims],
                                     dd.astype) for dd in s.decls], s.shared))
    return out


# ---------------------------------------------------------------------------
# F9 scoping, CONST, DEFtype

def f9_descs(tier):
    out = [('F9c', tier), ('F9s', tier)]
    for kind in ('INT', 'LNG', 'SNG', 'DBL', 'STR'):
        out.append(('F9d', tier, kind))
    return out


def build_f9c(d):
    """CONST: types from the expression / the suffix, global vs local, shadowing"""
    _, tier = d
    items = []

    def add(key, stmts, procs=(), pre=(), cshape='other'):
        items.append(Item(stmts, {'construct': 'const', 'cshape': cshape, 'key': 'F9c ' + key}, size=len(key),
                          pre=list(pre), post=([A.End()] + list(procs)) if procs else None, script={}))
    for name, e in [('ca', '5'), ('cb', '70000'), ('cc', '2.5'), ('cd', '2.5#'), ('ce%', '2.5'),
                    ('cf%', '3.5'), ('cg&', '7'), ('ch!', '1'), ('ci#', '0.1'), ('cj', '0.1'),
                    ('ck%', '32767')]:
        add('type %s=%s' % (name, e), [A.Const(name, N(e)), A.Print([Vr(name)]),
                                       A.Print([A.Bin('*', Vr(name), L('2'))]),
                                       A.Print([A.Bin('/', Vr(name), L('2'))])],
            cshape=('nosuffix' if name[-1] not in V.SUFFIX else
                    'suffix-same' if V.SUFFIX[name[-1]] == V.literal(e).type else 'suffix-differs'))
    add('str', [A.Const('cs$', A.Str('ab')), A.Print([A.Bin('+', Vr('cs$'), A.Str('c'))])])
    add('expr', [A.Const('ca', L('5')), A.Const('cb', A.Bin('+', A.Bin('*', Vr('ca'), L('2')), L('1'))),
                 A.Print([Vr('cb')]), A.Const('cn', A.Un('-', Vr('ca'))), A.Print([Vr('cn')])],
        cshape='refers-const')
    add('neg', [A.Const('cm', N('-32768')), A.Print([Vr('cm')]), A.Const('cq', A.Bin('\\', L('7'), L('2'))),
                A.Print([Vr('cq')])])
    # global visible in procedures; local shadows; local invisible outside
    add('global-in-sub', [A.Const('ca', L('5')), A.CallSub('show', [], 'call')],
        [A.Proc('SUB', 'show', [], [A.Print([A.Bin('+', Vr('ca'), L('1'))])])])
    add('local-shadows', [A.Const('ca', L('5')), A.CallSub('show', [], 'call'), A.Print([Vr('ca')])],
        [A.Proc('SUB', 'show', [], [A.Const('ca', L('6.5')), A.Print([Vr('ca')])])])
    add('local-only', [A.CallSub('show', [], 'call'), A.CallSub('other', [], 'call')],
        [A.Proc('SUB', 'show', [], [A.Const('cl', L('9')), A.Print([Vr('cl')])]),
         A.Proc('SUB', 'other', [], [A.Const('cl', A.Str('x')), A.Print([Vr('cl')])])])
    add('in-function', [A.Const('ca', L('5')), A.Print([A.FnCall('twice%', [Vr('ca')])])],
        [A.Proc('FUNCTION', 'twice%', [A.Param('n%')], [let('twice%', A.Bin('*', Vr('n%'), Vr('ca')))])])
    add('dim-bound', [A.Const('cn', L('3')), A.Dim([A.Decl('ar%', [(None, Vr('cn'))])]),
                      A.Assign(A.Index('ar%', [Vr('cn')]), L('4')),
                      P(A.Index('ar%', [L('3')]), A.Builtin('UBOUND', [Vr('ar%')]))])
    add('for-select', [A.Const('cn', L('2')),
                       A.For('i%', L('1'), Vr('cn'), None, [
                           A.Select(Vr('i%'), [([('val', Vr('cn'))], [A.Print([A.Str('hit')])])],
                                    [A.Print([A.Str('miss')])])])])
    return Case('F9', items, packable=False)


def build_f9s(d):
    """visibility: module variables in procedures, DIM SHARED, STATIC, same name / other suffix"""
    _, tier = d
    items = []

    def add(key, stmts, procs=(), pre=()):
        items.append(Item(stmts, {'construct': 'scope', 'key': 'F9s ' + key}, size=len(key),
                          pre=list(pre), post=([A.End()] + list(procs)) if procs else None, script={}))
    for s in ['%', '&', '!', '#', '$']:
        t = V.SUFFIX[s]
        v0, v1 = _val_of(t, 0), _val_of(t, 1)
        add('invisible ' + s, [let('v' + s, v0), A.CallSub('peek2', [], 'call'), A.Print([Vr('v' + s)])],
            [A.Proc('SUB', 'peek2', [], [A.Print([Vr('v' + s)]), let('v' + s, _val_of(t, 1)),
                                         A.Print([Vr('v' + s)])])])
        add('shared ' + s, [let('g' + s, v0), A.CallSub('peek2', [], 'call'), A.Print([Vr('g' + s)])],
            [A.Proc('SUB', 'peek2', [], [A.Print([Vr('g' + s)]), let('g' + s, _val_of(t, 1))])],
            pre=[A.Dim([A.Decl('g' + s)], shared=True)])
        add('shared-as ' + s, [let('g', v0), A.CallSub('peek2', [], 'call'), A.Print([Vr('g')])],
            [A.Proc('SUB', 'peek2', [], [A.Print([Vr('g')]), let('g', _val_of(t, 1))])],
            pre=[A.Dim([A.Decl('g', None, TNAME[t])], shared=True)])
        add('static ' + s, [A.CallSub('cnt', [], 'call'), A.CallSub('cnt', [], 'call'), A.CallSub('cnt', [], 'bare')],
            [A.Proc('SUB', 'cnt', [], [A.Static([A.Decl('k' + s)]), let('k' + s, _bump(t, Vr('k' + s))),
                                       let('m' + s, _bump(t, Vr('m' + s))),
                                       A.Print([Vr('k' + s), ';', Vr('m' + s)])])])
        add('static-proc ' + s, [A.CallSub('cnt', [], 'call'), A.CallSub('cnt', [], 'call')],
            [A.Proc('SUB', 'cnt', [], [let('m' + s, _bump(t, Vr('m' + s))), A.Print([Vr('m' + s)])],
                    static=True)])
        add('dim-local ' + s, [A.CallSub('cnt', [], 'call'), A.CallSub('cnt', [], 'call')],
            [A.Proc('SUB', 'cnt', [], [A.Dim([A.Decl('m', None, TNAME[t])]), let('m', _bump(t, Vr('m'))),
                                       A.Print([Vr('m')])])])
    # the same base name with different suffixes names different variables
    add('suffixes', [let('n%', L('1')), let('n&', L('2')), let('n!', L('3.5')), let('n#', L('4.5')),
                     let('n$', A.Str('five')), P(Vr('n%'), Vr('n&'), Vr('n!'), Vr('n#'), Vr('n$'))])
    add('static-shared-same-name',
        [let('g%', L('1')), A.CallSub('one', [], 'call'), A.CallSub('two', [], 'call'), A.Print([Vr('g%')])],
        [A.Proc('SUB', 'one', [], [A.Static([A.Decl('z%')]), let('z%', L('5')), let('g%', A.Bin('+', Vr('g%'), Vr('z%')))]),
         A.Proc('SUB', 'two', [], [A.Print([Vr('z%')]), let('g%', A.Bin('*', Vr('g%'), L('2')))])],
        pre=[A.Dim([A.Decl('g%')], shared=True)])
    add('shared-array',
        [A.Assign(A.Index('ga%', [L('2')]), L('7')), A.CallSub('one', [], 'call'), A.Print([A.Index('ga%', [L('3')])])],
        [A.Proc('SUB', 'one', [], [A.Assign(A.Index('ga%', [L('3')]), A.Bin('+', A.Index('ga%', [L('2')]), L('1')))])],
        pre=[A.Dim([A.Decl('ga%', [(None, L('3'))])], shared=True)])
    add('function-local-named-like-param',
        [let('a%', L('3')), A.Print([A.FnCall('f1%', [Vr('a%')])]), A.Print([Vr('a%')])],
        [A.Proc('FUNCTION', 'f1%', [A.Param('b%')], [let('a%', L('10')), let('b%', A.Bin('+', Vr('b%'), Vr('a%'))),
                                                     let('f1%', Vr('b%'))])])
    return Case('F9', items, packable=False)


def build_f9d(d):
    """DEFtype: ranges x first letters x suffix override x AS override; in procedures too"""
    _, tier, kind = d
    t = {'INT': INTEGER, 'LNG': LONG, 'SNG': SINGLE, 'DBL': DOUBLE, 'STR': STRING}[kind]
    items = []
    string = t == STRING
    val = A.Str('zz') if string else N('2.5')

    def probe(name):
        """statements showing the type of `name` through conversion of 2.5 / 7 \\ 2"""
        if string:
            return [let(name, A.Str('zz')), A.Print([A.Bin('+', Vr(name), A.Str('!'))])]
        return [let(name, N('2.5')), A.Print([Vr(name)]), A.Print([A.Bin('/', Vr(name), L('2'))])]
    ranges = [[('a', 'c')], [('b', None)], [('a', 'a'), ('x', 'z')], [('a', 'z')], [('C', 'A')] if False else [('A', 'C')]]
    for rg in ranges:
        for name in ['a', 'b', 'cnt', 'd', 'y', 'Bx']:
            stmts = probe(name)
            feat = {'construct': 'deftype', 'kind': kind, 'ranges': repr(rg), 'name': name,
                    'key': 'F9d %s %r %s' % (kind, rg, name)}
            items.append(Item(stmts, feat, size=len(name), pre=[A.DefType(kind, rg)], script={}))
    # suffix and AS win over DEFtype; other letters stay SINGLE
    rg = [('a', 'c')]
    for name, extra_pre in [('a%', []), ('b#', []), ('c!', []), ('a&', []),
                            ('b', [A.Dim([A.Decl('b', None, 'LONG')])]),
                            ('c', [A.Dim([A.Decl('c')])]),
                            ('a', [A.Dim([A.Decl('a', [(None, L('2'))])])])]:
        if name == 'a':
            if string:
                stmts = [A.Assign(A.Index('a', [L('1')]), A.Str('q')), A.Print([A.Index('a', [L('1')])])]
            else:
                stmts = [A.Assign(A.Index('a', [L('1')]), N('2.5')), A.Print([A.Index('a', [L('1')])])]
        elif name[-1] in '%&!#' or extra_pre and extra_pre[0].decls[0].astype:
            stmts = [let(name, N('2.5')), A.Print([Vr(name)])]
        else:
            stmts = probe(name)
        feat = {'construct': 'deftype', 'kind': kind, 'ranges': repr(rg), 'name': name + '+decl' * bool(extra_pre),
                'key': 'F9d %s override %s %d' % (kind, name, len(extra_pre))}
        items.append(Item(stmts, feat, size=9, pre=[A.DefType(kind, rg)] + extra_pre, script={}))
    # inside procedures: parameters, locals and the function result follow DEFtype
    body = probe('b') if not string else probe('b')
    items.append(Item([A.CallSub('sp', [], 'call')],
                      {'construct': 'deftype', 'kind': kind, 'ranges': repr(rg), 'name': 'local',
                       'key': 'F9d %s local' % kind}, size=10,
                      pre=[A.DefType(kind, rg)], post=[A.End(), A.Proc('SUB', 'sp', [], body)], script={}))
    fb = [let('bfn', A.Str('r') if string else N('3.5'))]
    items.append(Item([A.Print([A.FnCall('bfn', [])]) if False else A.Print([Vr('bfn')])],
                      {'construct': 'deftype', 'kind': kind, 'ranges': repr(rg), 'name': 'fnresult',
                       'key': 'F9d %s fnresult' % kind}, size=10,
                      pre=[A.DefType(kind, rg)], post=[A.End(), A.Proc('FUNCTION', 'bfn', [], fb)], script={}))
    pb = [A.Print([Vr('cp')])]
    arg = A.Str('w') if string else N('2.5')
    items.append(Item([A.CallSub('sq', [arg], 'call')],
                      {'construct': 'deftype', 'kind': kind, 'ranges': repr(rg), 'name': 'param',
                       'key': 'F9d %s param' % kind}, size=10,
                      pre=[A.DefType(kind, rg)], post=[A.End(), A.Proc('SUB', 'sq', [A.Param('cp')], pb)], script={}))
    return Case('F9', items, packable=False)


# ---------------------------------------------------------------------------
# F10 arrays and records

def f10_descs(tier):
    out = []
    for t in ([INTEGER, DOUBLE, STRING] if tier == 'quick' else NUM + [STRING]):
        out.append(('F10a', tier, t))
    out.append(('F10r', tier))
    return out


F10_DIMS = [
    ('implicit', None), ('0..3', [(None, '3')]), ('2..4', [('2', '4')]), ('-2..1', [('-2', '1')]),
    ('3..3', [('3', '3')]), ('2d', [(None, '2'), ('1', '2')]), ('frac', [(None, '2.5')]),
]
F10_SUBS = ['0', '1', '3', '4', '-1', '-2', '10', '11', '2.5', '3.5', '1.5', '40000', '2&', '2#']


def build_f10a(d):
    _, tier, t = d
    s = SUF[t]
    items = []
    nm = 'ar' + s
    for dtag, dims in F10_DIMS:
        pre = []
        if dims is not None:
            pre = [A.Dim([A.Decl(nm, [(None if lo is None else N(lo), N(hi)) for lo, hi in dims])])]
        two = dims is not None and len(dims) == 2
        for sub in F10_SUBS:
            for form in ('const', 'var'):
                if form == 'var':
                    setup = [let('k#', N(sub.rstrip('&#')))]
                    sx = Vr('k#')
                else:
                    setup = []
                    sx = N(sub)
                idx = (lambda: [sx, L('1')]) if two else (lambda: [sx])
                stmts = setup + [let('g1' + s, _val_of(t, 2)),
                                 A.Assign(A.Index(nm, idx()), _val_of(t, 0)),
                                 A.Print([A.Index(nm, idx())]), A.Print([Vr('g1' + s)])]
                feat = {'construct': 'array', 'lt': t, 'dims': dtag, 'sub': sub, 'form': form,
                        'key': 'F10a %s %s %s %s' % (t, dtag, sub, form)}
                items.append(Item(stmts, feat, size=len(sub), pre=_fresh_dims(pre), script={}))
        # bounds and neighbours: write all, read all
        if dims is not None and dtag != 'frac':
            lo = int(dims[0][0] or 0)
            hi = int(float(dims[0][1]))
            body = []
            for i in range(lo, hi + 1):
                body.append(A.Assign(A.Index(nm, [N(i)] + ([L('2')] if two else [])),
                                     A.Str('e%d' % i) if t == STRING else N(i * 3)))
            body.append(P(*[A.Index(nm, [N(i)] + ([L('2')] if two else [])) for i in range(lo, hi + 1)]))
            body.append(P(A.Builtin('LBOUND', [Vr(nm)]), A.Builtin('UBOUND', [Vr(nm)])))
            if two:
                body.append(P(A.Builtin('LBOUND', [Vr(nm), L('2')]), A.Builtin('UBOUND', [Vr(nm), L('2')])))
                body.append(A.Print([A.Index(nm, [L('0'), L('1')])]))
            feat = {'construct': 'array', 'lt': t, 'dims': dtag, 'sub': 'all', 'form': 'const',
                    'key': 'F10a %s %s all' % (t, dtag)}
            items.append(Item(body, feat, size=20, pre=_fresh_dims(pre), script={}))
    # dynamic bounds
    for lo, hi in [('1', '3'), ('0', '0'), ('3', '1'), ('-1', '1')]:
        stmts = [let('lo%', N(lo)), let('hi%', N(hi)),
                 A.Dim([A.Decl(nm, [(Vr('lo%'), Vr('hi%'))])]),
                 A.Assign(A.Index(nm, [Vr('hi%')]), _val_of(t, 0)),
                 P(A.Index(nm, [Vr('hi%')]), A.Builtin('LBOUND', [Vr(nm)]), A.Builtin('UBOUND', [Vr(nm)])),
                 A.Print([A.Index(nm, [A.Bin('+', Vr('hi%'), L('1'))])])]
        feat = {'construct': 'array', 'lt': t, 'dims': 'dynamic', 'sub': lo + '..' + hi, 'form': 'var',
                'key': 'F10a %s dyn %s %s' % (t, lo, hi)}
        items.append(Item(stmts, feat, size=10, script={}))
    # LBOUND / UBOUND with a bad dimension
    for dim in ['0', '2', '3']:
        stmts = [A.Print([A.Builtin('UBOUND', [Vr(nm), N(dim)])])]
        feat = {'construct': 'array', 'lt': t, 'dims': '2d', 'sub': 'ubound-dim=' + dim, 'form': 'const',
                'key': 'F10a %s ubound %s' % (t, dim)}
        items.append(Item(stmts, feat, size=10,
                          pre=[A.Dim([A.Decl(nm, [(None, L('2')), (L('1'), L('2'))])])], script={}))
    return Case('F10', items, packable=False)


def _fresh_dims(pre):
    out = []
    for s in pre:
        out.append(A.Dim([A.Decl(dd.name, [(None if lo is None else _clone(lo), _clone(hi)) for lo, hi in dd.dims],
                                 dd.astype) for dd in s.decls], s.shared))
    return out


def _clone(e):
    if isinstance(e, A.Lit):
        return A.Lit(e.text)
    if isinstance(e, A.Un):
        return A.Un(e.op, _clone(e.e))
    if isinstance(e, A.Var):
        return A.Var(e.name)
    raise TypeError(e)


def build_f10r(d):
    """records: every field type, nested records, arrays of records, neighbours untouched,
    conversion on field assignment, defaults"""
    _, tier = d
    items = []

    def td():
        return [A.TypeDef('inner', [('ia', 'INTEGER'), ('ib', 'DOUBLE')]),
                A.TypeDef('outer', [('fa', 'INTEGER'), ('fl', 'LONG'), ('fs', 'SINGLE'), ('fd', 'DOUBLE'),
                                    ('fi', 'inner'), ('fz', 'INTEGER')])]

    def add(key, pre, stmts, post=None):
        items.append(Item(stmts, {'construct': 'record', 'key': 'F10r ' + key}, size=len(key),
                          pre=td() + pre, post=post, script={}))
    fields = [('fa', '7'), ('fl', '70000'), ('fs', '2.5'), ('fd', '0.1#'), ('fz', '-3')]
    R = lambda: Vr('r')
    for base_tag, base, pre in [
            ('scalar', lambda: Vr('r'), lambda: [A.Dim([A.Decl('r', None, 'outer')])]),
            ('elem', lambda: A.Index('rs', [L('2')]), lambda: [A.Dim([A.Decl('rs', [(L('1'), L('3'))], 'outer')])]),
            ('elem-var', lambda: A.Index('rs', [Vr('k%')]), lambda: [A.Dim([A.Decl('rs', [(L('1'), L('3'))], 'outer')])])]:
        for f, v in fields:
            stmts = [let('k%', L('2')), let('before%', L('11')), A.Assign(A.Field(base(), f), N(v)), let('after%', L('12')),
                     P(*[A.Field(base(), g) for g, _ in fields]),
                     P(A.Field(A.Field(base(), 'fi'), 'ia'), A.Field(A.Field(base(), 'fi'), 'ib')),
                     P(Vr('before%'), Vr('after%'))]
            if base_tag != 'scalar':
                stmts.append(P(A.Field(A.Index('rs', [L('1')]), f), A.Field(A.Index('rs', [L('3')]), f)))
            add('%s %s' % (base_tag, f), pre(), stmts)
        # nested
        stmts = [let('k%', L('2')), A.Assign(A.Field(A.Field(base(), 'fi'), 'ia'), N('5')),
                 A.Assign(A.Field(A.Field(base(), 'fi'), 'ib'), N('2.5')),
                 P(A.Field(base(), 'fd'), A.Field(A.Field(base(), 'fi'), 'ia'), A.Field(A.Field(base(), 'fi'), 'ib'),
                   A.Field(base(), 'fz'))]
        add('%s nested' % base_tag, pre(), stmts)
        # conversion into fields
        for f, v in [('fa', '2.5'), ('fa', '3.5'), ('fa', '40000'), ('fl', '2147483647.5#'), ('fs', '0.1#'),
                     ('fs', '1D+39'), ('fd', '0.1')]:
            add('%s conv %s=%s' % (base_tag, f, v), pre(),
                [let('k%', L('2')), A.Assign(A.Field(base(), f), N(v)), A.Print([A.Field(base(), f)])])
        # subscript errors on arrays of records
    for sub in ['0', '4', '1.5', '2.5']:
        add('elem sub=' + sub, [A.Dim([A.Decl('rs', [(L('1'), L('3'))], 'outer')])],
            [A.Assign(A.Field(A.Index('rs', [N(sub)]), 'fl'), L('9')),
             P(A.Field(A.Index('rs', [L('1')]), 'fl'), A.Field(A.Index('rs', [L('2')]), 'fl'),
               A.Field(A.Index('rs', [L('3')]), 'fl'))])
    # record in a SUB: local record is fresh per call; SHARED record
    add('local-record', [], [A.CallSub('mk', [], 'call'), A.CallSub('mk', [], 'call')],
        post=[A.End(), A.Proc('SUB', 'mk', [], [A.Dim([A.Decl('r', None, 'outer')]),
                                                A.Print([A.Field(R(), 'fl')]),
                                                A.Assign(A.Field(R(), 'fl'), L('5'))])])
    add('shared-record', [A.Dim([A.Decl('r', None, 'outer')], shared=True)],
        [A.Assign(A.Field(R(), 'fl'), L('4')), A.CallSub('mk', [], 'call'), A.Print([A.Field(R(), 'fl')])],
        post=[A.End(), A.Proc('SUB', 'mk', [], [A.Assign(A.Field(R(), 'fl'), A.Bin('*', A.Field(R(), 'fl'), L('2')))])])
    return Case('F10', items, packable=False)


# ---------------------------------------------------------------------------
# F11 device statements

F11_ARGS = ['1', '2.5', '3.5', '0', '-1', '40000', '7&', '7#']


def f11_descs(tier):
    return [('F11', tier, k) for k in ['CLS', 'BEEP', 'COLOR', 'LOCATE', 'SCREEN', 'WIDTH', 'VIEWPRINT',
                                       'SOUND', 'PLAY', 'POKE', 'DEFSEG', 'RANDOMIZE', 'RND', 'PEEK',
                                       'TIMER', 'INKEY$']]


def build_f11(d):
    _, tier, k = d
    items = []

    def add(key, stmts, script=None):
        items.append(Item(stmts + [A.Print([A.Str('done')])],
                          {'construct': 'device', 'stmt': k, 'argclass': key.split(' ')[0] +
                           (' ' + key.split(' ', 1)[1] if key.startswith('pattern') else ''),
                           'key': 'F11 %s %s' % (k, key)},
                          size=len(key), script=script or {}))
    args = F11_ARGS if tier != 'quick' else F11_ARGS[:6]
    if k in ('CLS', 'BEEP'):
        add('plain', [A.Dev(k)])
        add('twice', [A.Dev(k), A.Print([A.Str('mid')]), A.Dev(k)])
    elif k == 'COLOR':
        for pat in itertools.product([0, 1], repeat=3):
            if not any(pat):
                continue
            a = [N(str(i + 1)) if p else None for i, p in enumerate(pat)]
            add('pattern %s' % (pat,), [A.Dev(k, a)])
        for v in args:
            add('fg ' + v, [A.Dev(k, [N(v)])])
            add('bg ' + v, [A.Dev(k, [None, N(v)])])
    elif k == 'LOCATE':
        for pat in itertools.product([0, 1], repeat=3):
            if not any(pat):
                continue
            a = [N(str(i + 2)) if p else None for i, p in enumerate(pat)]
            add('pattern %s' % (pat,), [A.Dev(k, a)])
        for v in args:
            add('row ' + v, [A.Dev(k, [N(v)])])
            add('col ' + v, [A.Dev(k, [None, N(v)])])
            add('both ' + v, [A.Dev(k, [N(v), N(v)])])
    elif k == 'SCREEN':
        for v in args:
            add('mode ' + v, [A.Dev(k, [N(v)])])
    elif k == 'WIDTH':
        for v in args:
            add('cols ' + v, [A.Dev(k, [N(v)])])
            add('both ' + v, [A.Dev(k, [N(v), N('25')])])
            add('lines ' + v, [A.Dev(k, [None, N(v)])])
    elif k == 'VIEWPRINT':
        add('none', [A.Dev(k)])
        for v in args:
            add('top ' + v, [A.Dev(k, [N(v), N('20')])])
            add('bottom ' + v, [A.Dev(k, [N('1'), N(v)])])
    elif k == 'SOUND':
        for v in args:
            add('freq ' + v, [A.Dev(k, [N(v), N('2')])])
            add('dur ' + v, [A.Dev(k, [N('440'), N(v)])])
        add('dur 70000', [A.Dev(k, [N('440'), N('70000')])])
    elif k == 'PLAY':
        for s in ['', 'c', 'o3 cde', 'L8 >c']:
            add('lit %r' % s, [A.Dev(k, [A.Str(s)])])
        add('expr', [let('m$', A.Str('ab')), A.Dev(k, [A.Bin('+', Vr('m$'), A.Str('c'))])])
    elif k == 'POKE':
        for off in ['0', '1.5', '70000', '-1', '65535']:
            add('off ' + off, [A.Dev(k, [N(off), N('1')])])
        for v in ['0', '255', '256', '-1', '2.5', '40000', '255.4']:
            add('val ' + v, [A.Dev(k, [N('10'), N(v)])])
    elif k == 'DEFSEG':
        add('none', [A.Dev(k)])
        for v in ['0', '1.5', '65535', '65536', '-1', '40960', '2.5#']:
            add('seg ' + v, [A.Dev(k, [N(v)])])
        add('then-poke', [A.Dev(k, [N('47104')]), A.Dev('POKE', [N('0'), N('65')]), A.Dev(k)])
    elif k == 'RANDOMIZE':
        for v in ['0', '1', '2.5', '-3', '70000', '0.1#', '1E+10']:
            add('seed ' + v, [A.Randomize(N(v))])
        add('then-rnd', [A.Randomize(N('5')), A.Print([A.Bin('*', A.Builtin('RND'), L('0'))])],
            {'rnd': [0.25]})
    elif k == 'RND':
        for arg in [None, '1', '0', '-1', '2.5', '-2.5', '0.4', '70000']:
            e1 = A.Builtin('RND', [] if arg is None else [N(arg)])
            add('arg %s' % arg, [let('r!', e1), P(A.Bin('<', Vr('r!'), L('1')), A.Bin('>=', Vr('r!'), L('0'))),
                                 let('q!', A.Builtin('RND', [L('0')])), A.Print([A.Bin('=', Vr('r!'), Vr('q!'))]),
                                 A.Print([A.Bin('*', Vr('r!'), L('4'))])],
                {'rnd': [0.25, 0.75]})
        add('int-scale', [A.Print([A.Builtin('INT', [A.Bin('*', A.Builtin('RND'), L('6'))])])] * 1 +
            [A.Print([A.Builtin('INT', [A.Bin('+', A.Bin('*', A.Builtin('RND'), L('6')), L('1'))])])],
            {'rnd': [0.0, 0.99999994]})
    elif k == 'PEEK':
        for off in ['0', '1.5', '70000', '-1', '2.5']:
            for ans in [0, 255]:
                add('off %s ans %d' % (off, ans), [A.Print([A.Builtin('PEEK', [N(off)])])], {'peek': [ans]})
        add('twice', [P(A.Builtin('PEEK', [L('1')]), A.Builtin('PEEK', [L('2')]))], {'peek': [7, 9]})
    elif k == 'TIMER':
        for ans in [0.0, 1.5, 86399.98, 12345.67]:
            add('ans %r' % ans, [let('t!', A.Builtin('TIMER')), A.Print([A.Bin('>=', Vr('t!'), L('1'))]),
                                 A.Print([A.Builtin('INT', [Vr('t!')])]),
                                 A.Print([A.Bin('-', A.Builtin('TIMER'), Vr('t!'))])],
                {'timer': [ans, ans + 1.0]})
    elif k == 'INKEY$':
        for ans in ['', 'a', '\x00H', ' ']:
            add('ans %r' % ans, [let('k$', A.Builtin('INKEY$')), P(A.Builtin('LEN', [Vr('k$')]), A.Str('[' ), Vr('k$'), A.Str(']')),
                                 A.IfLine(A.Bin('=', Vr('k$'), A.Str('')), [A.Print([A.Str('none')])],
                                          [A.Print([A.Builtin('ASC', [Vr('k$')])])])],
                {'inkey': [ans]})
        add('loop-until-key', [A.Do('loop_until', A.Bin('<>', Vr('k$'), A.Str('')),
                                    [let('k$', A.Builtin('INKEY$')), inc('n%')]),
                               P(Vr('n%'), Vr('k$'))], {'inkey': ['', '', 'q']})
    return Case('F11', items, packable=False)


# ---------------------------------------------------------------------------
# F12 scripted environments: INPUT / INKEY$ / RND / TIMER answer sequences

F12_LINES = ['5', '-3', '2.5', 'abc', '', '1,2', '70000', ' 7 ', '1e2', '3,x']
F12_LINES_Q = ['5', '-3', '2.5', 'abc', '1,2', '70000']


def f12_descs(tier):
    out = []
    for t in ([INTEGER, SINGLE, STRING] if tier == 'quick' else NUM + [STRING]):
        out.append(('F12i', tier, t))
    out.append(('F12two', tier))
    out.append(('F12mix', tier))
    return out


def build_f12i(d):
    """INPUT of one variable: prompt forms x answer histories of length <= 2 (3 in thorough)"""
    _, tier, t = d
    s = SUF[t]
    lines = F12_LINES_Q if tier == 'quick' else F12_LINES
    items = []
    forms = [('plain', None, True, False), ('prompt;', 'n', True, False), ('prompt,', 'n', False, False),
             ('sameline', 'n', True, True)]
    depth = 2 if tier == 'quick' else 3
    hist = []
    for k in range(0, depth + 1):
        hist.extend(itertools.product(lines, repeat=k))
    for ftag, prompt, q, same in forms:
        if tier == 'quick' and ftag in ('prompt,', 'sameline'):
            hs = [h for h in hist if len(h) <= 1]
        else:
            hs = hist
        for h in hs:
            stmts = [A.Input([Vr('v' + s)], prompt, q, same), A.Print([A.Str('got'), ';', Vr('v' + s)]),
                     A.Input([Vr('w' + s)], None, True, False), A.Print([Vr('w' + s)])]
            feat = {'construct': 'input', 'lt': t, 'form': ftag, 'nanswers': len(h),
                    'key': 'F12i %s %s %r' % (t, ftag, h)}
            items.append(Item(stmts, feat, size=len(h) * 10 + sum(len(x) for x in h), script={'input': list(h)}))
    return Case('F12', items, packable=False)


def build_f12two(d):
    """INPUT a%, b$ / INPUT a!, b! : field counts and mixed types"""
    _, tier = d
    items = []
    lines = ['1,x', '1', '1,2,3', 'x,1', '2.5,3.5', ',', '1, y z', '-1,-2']
    for targets in (['a%', 'b$'], ['a!', 'b!'], ['a$', 'b%']):
        for k in (1, 2):
            for h in itertools.product(lines, repeat=k):
                stmts = [A.Input([Vr(x) for x in targets], 'two', True, False),
                         P(*[Vr(x) for x in targets])]
                feat = {'construct': 'input-two', 'targets': ' '.join(targets), 'nanswers': k,
                        'key': 'F12two %s %r' % (targets, h)}
                items.append(Item(stmts, feat, size=k * 10, script={'input': list(h)}))
    # INPUT into an element and a field
    for h in (['4'], ['x', '4'], ['2.5']):
        stmts = [A.Input([A.Index('ar%', [L('2')])], None, True, False),
                 A.Input([A.Field(Vr('r'), 'fl')], None, True, False),
                 P(A.Index('ar%', [L('2')]), A.Field(Vr('r'), 'fl'), A.Field(Vr('r'), 'fa'))]
        items.append(Item(stmts, {'construct': 'input-two', 'targets': 'elem field', 'nanswers': len(h),
                                  'key': 'F12two elem %r' % (h,)}, size=30,
                          pre=[A.TypeDef('rt', [('fa', 'INTEGER'), ('fl', 'LONG')]),
                               A.Dim([A.Decl('ar%', [(None, L('3'))])]), A.Dim([A.Decl('r', None, 'rt')])],
                          script={'input': h + ['9']}))
    return Case('F12', items, packable=False)


def build_f12mix(d):
    """a program that consumes k <= 3 answers of INKEY$ / RND / TIMER and branches on them"""
    _, tier = d
    items = []
    keys = ['', 'a', 'q']
    rnds = [0.0, 0.25, 0.75]
    timers = [0.0, 10.5]
    for ks in itertools.product(keys, repeat=2):
        for rs in itertools.product(rnds, repeat=(1 if tier == 'quick' else 2)):
            for tm in timers:
                stmts = [
                    let('t0!', A.Builtin('TIMER')),
                    A.For('i%', L('1'), L('2'), None, [
                        let('k$', A.Builtin('INKEY$')),
                        A.Select(Vr('k$'), [([('val', A.Str(''))], [A.Print([A.Str('idle')])]),
                                            ([('val', A.Str('q'))], [A.Print([A.Str('quit')]), A.Exit('FOR')])],
                                 [A.Print([A.Str('key '), ';', Vr('k$')]),
                                  let('d%', A.Bin('+', A.Builtin('INT', [A.Bin('*', A.Builtin('RND'), L('4'))]), L('1'))),
                                  A.Print([Vr('d%')])])]),
                    A.IfLine(A.Bin('>', Vr('t0!'), L('5')), [A.Print([A.Str('late')])], [A.Print([A.Str('early')])]),
                    P(Vr('i%'), Vr('d%'))]
                script = {'inkey': list(ks), 'rnd': list(rs), 'timer': [tm]}
                feat = {'construct': 'env-mix', 'key': 'F12mix %r %r %r' % (ks, rs, tm)}
                items.append(Item(stmts, feat, size=len(repr(script)), script=script))
    return Case('F12', items, packable=False)


# ---------------------------------------------------------------------------

BUILDERS = {
    'F5': build_f5, 'F5c': build_f5c, 'F6': build_f6, 'F7': build_f7, 'F8': build_f8, 'F8r': build_f8r, 'F8m': build_f8m,
    'F9c': build_f9c, 'F9s': build_f9s, 'F9d': build_f9d, 'F10a': build_f10a, 'F10r': build_f10r,
    'F11': build_f11, 'F12i': build_f12i, 'F12two': build_f12two, 'F12mix': build_f12mix,
}


def families(tier):
    return [
        ('F5', f5_descs(tier) + f5c_descs(tier), {
            'what': 'statement lists of length <= 2 (3 in thorough: block, inc|END, block), nesting <= 2, over '
                    '3 simple statements, block IF / ELSE / ELSEIF, one-line IF [ELSE], FOR (6 bound/step menus, '
                    'EXIT FOR), WHILE, 5 DO forms, EXIT DO, SELECT, GOSUB to label / line number, forward GOTO, END',
            'conditions': F5_CONDS, 'for_menus': F5_FORS, 'do_forms': F5_DOS,
            'body_length': 1 if tier == 'quick' else 2, 'programs': len(_f5_programs(tier)),
            'truth_family': {'forms': F5C_FORMS, 'values': F5C_VALUES,
                             'what': 'every conditional construct x typed condition values (variable and '
                                     'expression): true iff non-zero'}}),
        ('F6', f6_descs(tier), {
            'what': 'FOR with the counter of each numeric type, bounds/steps at the type limits, fractional '
                    'bounds and steps; bounds as literals and through DOUBLE variables',
            'menus': {k: ['%s TO %s STEP %s' % m for m in v] for k, v in F6_MENU.items()}}),
        ('F7', f7_descs(tier), {
            'what': 'SELECT CASE: selector type x selector value x two CASE clauses (value, range, IS op, list) '
                    'x clause value types x with/without CASE ELSE; expression selectors',
            'selectors': F7_SEL, 'clauses_numeric': [repr(c) for c in F7_CLAUSES_NUM],
            'clauses_string': [repr(c) for c in F7_CLAUSES_STR],
            'pairs': 'all ordered pairs' if tier != 'quick' else 'each clause with 2 successors'}),
        ('F8', f8_descs(tier), {
            'what': 'SUB / FUNCTION x parameter type x argument form x body action x call syntax x DECLARE; '
                    'recursion (factorial, fibonacci, by-reference accumulator, mutual); two parameters, '
                    'aliasing, record and whole-array parameters, elements of arrays of records by reference',
            'argument_forms': ARG_FORMS, 'body_actions': BODY_ACTIONS}),
        ('F9', f9_descs(tier), {
            'what': 'CONST typing / global / local / shadowing; module variables invisible in procedures, '
                    'DIM SHARED, STATIC, STATIC procedures, same name with other suffix; DEFtype ranges x '
                    'first letters x suffix / AS overrides x locals, parameters, function results'}),
        ('F10', f10_descs(tier), {
            'what': 'arrays: declaration forms x subscripts (constant and computed, in and out of range, '
                    'fractional, LONG/DOUBLE typed) x element types; LBOUND/UBOUND; dynamic bounds; records: '
                    'every field of scalar / element / computed element, nested records, conversions into '
                    'fields, neighbours untouched',
            'dims': [x[0] for x in F10_DIMS], 'subscripts': F10_SUBS}),
        ('F11', f11_descs(tier), {
            'what': 'every device statement x argument-presence patterns x typed / out-of-range arguments',
            'args': F11_ARGS}),
        ('F12', f12_descs(tier), {
            'what': 'INPUT prompt forms x all answer histories up to length 2 (3 in thorough) over a line menu '
                    '(incl. rejected lines, too few / too many fields); two-variable INPUT; INKEY$/RND/TIMER '
                    'answer sequences driving a loop',
            'lines': F12_LINES_Q if tier == 'quick' else F12_LINES}),
    ]
