"""Statement-level families of C01 (F5 ...)."""
BUILDERS = {}


def families(tier):
    return []
