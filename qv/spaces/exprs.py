"""Typed expression families of C01: F1 binary operators, F2 unary operators
and builtins, F3 nesting of two operators, F4 implicit conversions.

Every family has `<name>_descs(tier)` -> list of small picklable descriptors
(enumeration order = size order) and `build(desc)` -> `c01_oracle.Case`.
"""
import itertools

from . import ast as A
from ..c01_oracle import Item, Case, value_class
from ..ref import values as V
from ..ref.values import INTEGER, LONG, SINGLE, DOUBLE, STRING

SUF = V.SUFFIX_OF
NUM = [INTEGER, LONG, SINGLE, DOUBLE]

# boundary values per type: (sign, magnitude text as it is spelled in source)
FULL = {
    INTEGER: ['0', '1', '-1', '2', '-2', '7', '-7', '32767', '-32768'],
    LONG: ['0', '1', '-1', '2', '-2', '7', '-7', '32767', '32768', '-32768', '-32769',
           '2147483647', '-2147483648'],
    SINGLE: ['0', '0.5', '-0.5', '1.5', '-1.5', '2.5', '-2.5', '0.1', '3', '-3', '16777216',
             '3.402823E+38', '-3.402823E+38', '1.175494E-38'],
    DOUBLE: ['0', '0.5', '-0.5', '1.5', '-1.5', '2.5', '-2.5', '0.1', '3', '-3', '16777216',
             '1.7976931348623157D+308', '-1.7976931348623157D+308', '2.2250738585072014D-308'],
    STRING: ['', 'a', 'b', 'ab', 'A'],
}
QUICK = {
    INTEGER: ['0', '2', '-7', '32767', '-32768'],
    LONG: ['0', '-1', '7', '32768', '-2147483648'],
    SINGLE: ['0', '0.5', '-2.5', '3', '3.402823E+38'],
    DOUBLE: ['0', '-1.5', '0.1', '16777216', '1.7976931348623157D+308'],
    STRING: ['', 'a', 'b', 'ab', 'A'],
}


# compile-time guises (operands as literals / through CONST names) in the
# quick tier: zero, both signs, a fraction / tie and one boundary per type
LITQ = {
    INTEGER: ['0', '7', '-2', '32767'],
    LONG: ['0', '-7', '32768'],
    SINGLE: ['0', '-2.5', '0.5'],
    DOUBLE: ['0', '-1.5', '0.1'],
    STRING: ['', 'a', 'b', 'ab', 'A'],
}


def inexact_single(t, val):
    """a SINGLE value whose decimal spelling is not a binary32 number: the
    literal denotes the rounded value, so compile-time evaluation must round it too"""
    if t != SINGLE:
        return False
    x = pyval(t, val)
    return V.to_single(x) != x


def menu(tier, t, form='var'):
    if tier == 'quick':
        return (QUICK if form == 'var' else LITQ)[t]
    # thorough: all values as variables and literals, the quick values through CONST names
    return (QUICK if form == 'const' else FULL)[t]


CONST_LETTER = {INTEGER: 'i', LONG: 'l', SINGLE: 's', DOUBLE: 'd', STRING: 't'}


def const_name(t, side, idx):
    return 'k' + CONST_LETTER[t] + side + str(idx)


def const_decls(tier, t, side):
    """CONST declarations (no suffix: the constant takes the type of its
    expression) for the whole menu of type t -> ([Const], {value: name})"""
    decls, names = [], {}
    for i, v in enumerate(menu(tier, t, 'const')):
        e = lit_expr(t, v)
        if e is None:
            continue
        names[v] = const_name(t, side, i)
        decls.append(A.Const(names[v], e))
    return decls, names


def lit_text(t, mag):
    """spelling of an unsigned literal of exactly type t"""
    if t == INTEGER:
        return mag
    if t == LONG:
        return mag + '&' if int(mag) <= 32767 else mag
    if t == SINGLE:
        return mag if ('.' in mag or 'E' in mag) else mag + '!'
    if t == DOUBLE:
        return mag if 'D' in mag else mag + '#'
    raise ValueError(t)


def lit_expr(t, val):
    """expression of static type t and the given value (None if no spelling)"""
    if t == STRING:
        return A.Str(val)
    neg = val.startswith('-')
    mag = val[1:] if neg else val
    if t == INTEGER and int(mag) > 32767:
        return None
    if t == LONG and int(mag) > 2147483647:
        return None
    e = A.Lit(lit_text(t, mag))
    return A.Un('-', e) if neg else e


def any_expr(t, val):
    """expression with the given value whose own type does not matter (for
    assignment to a variable of type t)"""
    if t == STRING:
        return A.Str(val)
    neg = val.startswith('-')
    mag = val[1:] if neg else val
    if t in (INTEGER, LONG):
        e = A.Lit(mag)
    else:
        e = A.Lit(lit_text(t, mag))
    return A.Un('-', e) if neg else e


def pyval(t, val):
    if t == STRING:
        return val
    if t in (INTEGER, LONG):
        return int(val)
    return float(val.replace('D', 'E'))


def operand(t, val, form, name):
    """-> (setup statements, expression)"""
    if form == 'lit':
        e = lit_expr(t, val)
        if e is None:
            return None
        return [], e
    v = A.Var(name + SUF[t])
    return [A.Assign(v, any_expr(t, val))], v


# ---------------------------------------------------------------------------
# F1

def f1_descs(tier):
    out = []
    forms = ['var', 'lit', 'const']
    for form in forms:
        for op in A.BIN_OPS:
            for lt, rt in itertools.product(NUM, NUM):
                out.append(('F1', tier, op, lt, rt, form))
        for op in ('+',) + A.CMP_OPS:
            out.append(('F1', tier, op, STRING, STRING, form))
    return out


def build_f1(d):
    _, tier, op, lt, rt, form = d
    items = []
    pre = []
    if form == 'const':
        da, na = const_decls(tier, lt, 'a')
        db, nb = const_decls(tier, rt, 'b')
        pre = da + db
    for lv in menu(tier, lt, form):
        for rv in menu(tier, rt, form):
            if form == 'const':
                if lv not in na or rv not in nb:
                    continue
                lo = ([], A.Var(na[lv]))
                ro = ([], A.Var(nb[rv]))
            else:
                lo = operand(lt, lv, form, 'a')
                ro = operand(rt, rv, form, 'b')
            if lo is None or ro is None:
                continue
            e = A.Bin(op, lo[1], ro[1])
            stmts = lo[0] + ro[0] + [A.Print([e])]
            feat = {'construct': 'binop', 'op': op, 'lt': lt, 'rt': rt, 'form': form,
                    'restype': V.arith_type(op, lt, rt) if lt != STRING else
                    (STRING if op == '+' else INTEGER),
                    'lclass': value_class(lt, pyval(lt, lv)),
                    'rclass': value_class(rt, pyval(rt, rv)),
                    'key': f'{lv} {op} {rv}'}
            if form != 'var' and (inexact_single(lt, lv) or inexact_single(rt, rv)):
                feat['inexact_single_literal'] = True
            items.append(Item(stmts, feat, size=len(lv) + len(rv)))
    return Case('F1', items, pre=pre)


# ---------------------------------------------------------------------------
# F2 unary operators and builtins

def I(n):
    """integer-valued literal expression"""
    return A.Un('-', A.Lit(str(-n))) if n < 0 else A.Lit(str(n))


def N(text):
    """signed literal from text like '-2.5' or '65&'"""
    return A.Un('-', A.Lit(text[1:])) if text.startswith('-') else A.Lit(text)


def S(s):
    return A.Str(s)


def B(name, *args):
    return A.Builtin(name, list(args))


def CH(n):
    return B('CHR$', I(n))


TIES = ['0.5', '1.5', '2.5', '-0.5', '-1.5', '-2.5', '0.4', '-0.6', '32767.4', '32767.5',
        '-32768.5', '-32768.6', '1E+10', '-1E+10']
TIES_D = ['2147483646.5#', '2147483647.5#', '-2147483648.5#', '-2147483648.6#', '32767.5#',
          '1D+300']


def _builtin_menu(tier):
    """[(builtin, tag, expression to print)] ; tag names the argument class"""
    q = tier == 'quick'
    out = []

    def add(name, tag, e):
        out.append((name, tag, e))
    # ABS, CINT, CLNG, INT over the typed boundary values
    for t in NUM:
        for v in menu(tier, t):
            e = lit_expr(t, v)
            if e is None:
                continue
            for fn in ('ABS', 'CINT', 'CLNG', 'INT'):
                add(fn, SUF[t] + value_class(t, pyval(t, v)), B(fn, e))
    for v in TIES + ([] if q else TIES_D):
        for fn in ('CINT', 'CLNG', 'INT'):
            add(fn, 'tie', B(fn, N(v)))
    # ASC
    for s in ['', 'a', 'A', 'ab', ' ', '~']:
        add('ASC', 'lit', B('ASC', S(s)))
    for n in [0, 1, 127, 128, 200, 255]:
        add('ASC', 'chr-high' if n >= 128 else 'chr-low', B('ASC', CH(n)))
    # CHR$
    for n in [65, 32, 126, 255, 128]:
        add('CHR$', 'ok', CH(n))
    for n in [-1, 256, 32767, -32768]:
        add('CHR$', 'bad', CH(n))
    for v in ['65&', '40000', '65.5', '64.5', '255.5', '-0.5', '65.4#', '1E+10']:
        add('CHR$', 'conv', B('LEN', B('CHR$', N(v))))
        add('CHR$', 'conv', B('ASC', B('CHR$', N(v))))
    # INSTR
    for s in ['abcabc', 'a', '']:
        for t in ['', 'a', 'bc', 'c', 'abcabcd', 'B']:
            add('INSTR', '2', B('INSTR', S(s), S(t)))
    for st in ['-1', '0', '1', '2', '4', '6', '7', '8', '2.5', '1.5', '3&', '6#']:
        for t in ['', 'bc', 'a']:
            add('INSTR', '3 start=%s needle=%s' % (st, 'empty' if t == '' else 'nonempty'),
                B('INSTR', N(st), S('abcabc'), S(t)))
    # LCASE$ / UCASE$
    for fn in ('LCASE$', 'UCASE$'):
        for s in ['aBc1!', '', 'XYZ', 'xyz']:
            add(fn, 'ascii', B(fn, S(s)))
        for n in [128, 135, 154, 129, 165, 164]:
            add(fn, 'high', B(fn, A.Bin('+', CH(n), S('xY'))))
            add(fn, 'high', A.Bin('=', B(fn, CH(n)), CH(n)))
    # LEFT$ / RIGHT$
    for fn in ('LEFT$', 'RIGHT$'):
        for s in ['abc', '']:
            for n in ['-1', '0', '1', '2', '3', '4', '32767', '1.5', '2.5', '0.5', '-0.5',
                      '40000', '2&', '2#']:
                add(fn, 'n=' + n, B(fn, S(s), N(n)))
    # LEN
    for s in ['', 'a', 'abc']:
        add('LEN', 'lit', B('LEN', S(s)))
    add('LEN', 'space', B('LEN', B('SPACE$', I(300))))
    add('LEN', 'concat', B('LEN', A.Bin('+', S('ab'), S('cde'))))
    # LTRIM$ / RTRIM$
    for fn in ('LTRIM$', 'RTRIM$'):
        for s in ['  a b  ', '', '   ', 'ab']:
            add(fn, 'blank', A.Bin('+', A.Bin('+', S('['), B(fn, S(s))), S(']')))
        add(fn, 'tab', B('LEN', B(fn, A.Bin('+', A.Bin('+', CH(9), S('a')), CH(9)))))
    # MID$
    for st in ['-1', '0', '1', '3', '6', '7', '8', '1.5', '2.5', '40000']:
        add('MID$', '2 start=' + st, B('MID$', S('abcdef'), N(st)))
        for ln in ['-1', '0', '1', '2', '10', '1.5', '40000']:
            add('MID$', '3 start=%s len=%s' % (st, ln), B('MID$', S('abcdef'), N(st), N(ln)))
    # SPACE$
    for n in ['-1', '0', '1', '3', '2.5', '3.5', '40000', '-0.5']:
        add('SPACE$', 'n=' + n, A.Bin('+', A.Bin('+', S('['), B('SPACE$', N(n))), S(']')))
    # STR$
    for t in NUM:
        for v in menu(tier, t):
            e = lit_expr(t, v)
            if e is not None:
                add('STR$', SUF[t], A.Bin('+', A.Bin('+', S('['), B('STR$', e)), S(']')))
    # STRING$
    for n in ['-1', '0', '1', '3', '2.5', '40000']:
        for c in ['65', '255', '256', '-1', '65.5', '32', '40000']:
            add('STRING$', 'code n=%s c=%s' % (n, c), B('STRING$', N(n), N(c)))
        for s in ['', 'a', 'xyz']:
            add('STRING$', 'str n=%s' % n, B('STRING$', N(n), S(s)))
    add('STRING$', 'code0', B('ASC', B('STRING$', I(2), I(0))))
    # VAL
    for s in ['', '0', '12', '-12', '+3', '1.5', '.5', '5.', '1e2', '1E2', '1d2', '1D2', '1.5e-3',
              '  12', '12abc', 'abc', '-', '--1', '1,2', '1.2.3', '&H10', '1 2', '12%', '1e', '-.5',
              '0.1', '123456789012', '1e308', '1e400', '99999999999999999999', '.', '+', 'e5']:
        add('VAL', repr(s), B('VAL', S(s)))
    return out


def f2_descs(tier):
    out = []
    forms = ['var', 'lit', 'const']
    for form in forms:
        for op in ('-', '+', 'NOT'):
            for t in NUM:
                out.append(('F2u', tier, op, t, form))
    m = _builtin_menu(tier)
    names = []
    for name, _, _ in m:
        if name not in names:
            names.append(name)
    for name in names:
        out.append(('F2b', tier, name))
    return out


def build_f2u(d):
    _, tier, op, t, form = d
    items = []
    pre = []
    for i, v in enumerate(FULL[t]):
        if form == 'const':
            e = lit_expr(t, v)
            if e is None:
                continue
            pre.append(A.Const(const_name(t, 'u', i), e))
            o = ([], A.Var(const_name(t, 'u', i)))
        else:
            o = operand(t, v, form, 'a')
        if o is None:
            continue
        feat = {'construct': 'unop', 'op': op, 'lt': t, 'form': form,
                'lclass': value_class(t, pyval(t, v)), 'key': f'{op} {v}'}
        items.append(Item(o[0] + [A.Print([A.Un(op, o[1])])], feat, size=len(v)))
    return Case('F2', items, pre=pre)


def build_f2b(d):
    _, tier, name = d
    items = []
    for nm, tag, e in _builtin_menu(tier):
        if nm != name:
            continue
        txt = A.expr(e)
        feat = {'construct': 'builtin', 'op': name, 'arg': tag, 'key': txt}
        items.append(Item([A.Print([e])], feat, size=len(txt)))
    return Case('F2', items)


# ---------------------------------------------------------------------------
# F4 conversions

CONV_VALUES = {
    INTEGER: ['0', '7', '-7', '32767', '-32768'],
    LONG: ['0', '-7', '32767', '32768', '-32768', '-32769', '16777217', '2147483647', '-2147483648'],
    SINGLE: ['0.5', '1.5', '2.5', '-0.5', '-1.5', '-2.5', '0.4', '32767.4', '32767.5', '-32768.5',
             '-32768.6', '16777216', '1E+10', '0.1', '3.402823E+38'],
    DOUBLE: ['0.5', '1.5', '2.5', '-0.5', '-1.5', '-2.5', '32767.5', '-32768.5', '2147483646.5',
             '2147483647.5', '-2147483648.5', '-2147483648.6', '0.1', '16777217', '1D+10',
             '3.4028235D+38', '3.4028236D+38', '1D+39', '1D-46', '1.7976931348623157D+308'],
}
CONV_QUICK = {
    INTEGER: ['7', '32767', '-32768'],
    LONG: ['-7', '32768', '16777217', '2147483647'],
    SINGLE: ['0.5', '1.5', '-2.5', '32767.5', '-32768.5', '1E+10', '0.1'],
    DOUBLE: ['2.5', '-0.5', '2147483647.5', '0.1', '1D+39', '1D-46'],
}
TARGETS = ['var', 'elem', 'field', 'byval', 'byval-lit', 'fnres', 'fnarg']
TNAME = {INTEGER: 'INTEGER', LONG: 'LONG', SINGLE: 'SINGLE', DOUBLE: 'DOUBLE'}


def f4_descs(tier):
    out = []
    for target in TARGETS:
        for t1 in NUM:
            for t2 in NUM:
                out.append(('F4', tier, target, t1, t2))
    return out


def build_f4(d):
    _, tier, target, t1, t2 = d
    vals = (CONV_QUICK if tier == 'quick' else CONV_VALUES)[t2]
    s1, s2 = SUF[t1], SUF[t2]
    pre = []
    post = []
    if target == 'elem':
        pre = [A.Dim([A.Decl('arr' + s1, [(None, A.Lit('3'))])])]
    elif target == 'field':
        pre = [A.TypeDef('rec', [('fi', 'INTEGER'), ('fl', 'LONG'), ('fs', 'SINGLE'), ('fd', 'DOUBLE')]),
               A.Dim([A.Decl('r', None, 'rec')])]
    elif target in ('byval', 'byval-lit'):
        post = [A.End(), A.Proc('SUB', 'show', [A.Param('p' + s1)], [A.Print([A.Var('p' + s1)])])]
    elif target == 'fnres':
        post = [A.End(), A.Proc('FUNCTION', 'cv' + s1, [A.Param('q' + s2)],
                                [A.Assign(A.Var('cv' + s1), A.Var('q' + s2))])]
    elif target == 'fnarg':
        post = [A.End(), A.Proc('FUNCTION', 'idf' + s1, [A.Param('q' + s1)],
                                [A.Assign(A.Var('idf' + s1), A.Var('q' + s1))])]
    items = []
    for v in vals:
        src_var = A.Var('s' + s2)
        setup = [A.Assign(src_var, any_expr(t2, v))]
        lit = lit_expr(t2, v)
        if target == 'var':
            tv = A.Var('t' + s1)
            stmts = setup + [A.Assign(tv, src_var), A.Print([tv])]
        elif target == 'elem':
            tv = A.Index('arr' + s1, [A.Lit('1')])
            stmts = setup + [A.Assign(tv, src_var), A.Print([tv])]
        elif target == 'field':
            tv = A.Field(A.Var('r'), {INTEGER: 'fi', LONG: 'fl', SINGLE: 'fs', DOUBLE: 'fd'}[t1])
            stmts = setup + [A.Assign(tv, src_var), A.Print([tv])]
        elif target == 'byval':
            if t1 == t2:
                # same type: a parenthesised variable is still passed by value
                stmts = setup + [A.CallSub('show', [A.Paren(src_var)], 'call')]
            else:
                stmts = setup + [A.CallSub('show', [A.Paren(src_var)], 'bare')]
        elif target == 'byval-lit':
            if lit is None:
                continue
            stmts = [A.CallSub('show', [lit], 'call')]
        elif target == 'fnres':
            stmts = setup + [A.Print([A.FnCall('cv' + s1, [src_var])])]
        elif target == 'fnarg':
            stmts = setup + [A.Print([A.FnCall('idf' + s1, [A.Paren(src_var)])])]
        feat = {'construct': 'convert', 'target': target, 'lt': t1, 'rt': t2,
                'rclass': value_class(t2, pyval(t2, v)), 'key': f'{target} {s1}<-{s2} {v}'}
        items.append(Item(stmts, feat, size=len(v)))
    return Case('F4', items, pre=pre, post=post)


# ---------------------------------------------------------------------------
# F3 nesting of two operators

F3_OPS_Q = ['^', '*', '/', '\\', 'MOD', '-', '=', 'AND']
F3_OPS_T = ['^', '*', '/', '\\', 'MOD', '+', '-', '=', '<', 'AND', 'OR', 'XOR', 'IMP']
F3_ATOMS_Q = [('a%', '7'), ('b!', '2.5'), ('c&', '-3')]
F3_ATOMS_T = [('a%', '7'), ('b!', '2.5'), ('c&', '-3'), ('d#', '0.1'), ('e%', '2')]
F3_UNARY = ['-', 'NOT']


def f3_descs(tier):
    ops = F3_OPS_Q if tier == 'quick' else F3_OPS_T
    out = []
    for o1 in ops:
        for o2 in ops:
            out.append(('F3', tier, o1, o2))
    for u in F3_UNARY:
        for o in ops:
            out.append(('F3u', tier, u, o))
    return out


def _atoms(tier):
    return F3_ATOMS_Q if tier == 'quick' else F3_ATOMS_T


def _atom_pre(tier):
    pre = []
    for name, v in _atoms(tier):
        t = V.SUFFIX[name[-1]]
        pre.append(A.Assign(A.Var(name), any_expr(t, v)))
    return pre


def build_f3(d):
    _, tier, o1, o2 = d
    atoms = [A.Var(n) for n, _ in _atoms(tier)]
    items = []
    for x, y, z in itertools.product(atoms, repeat=3):
        for shape in ('L', 'R'):
            if shape == 'L':
                e = A.Bin(o2, A.Bin(o1, x, y), z)
            else:
                e = A.Bin(o1, x, A.Bin(o2, y, z))
            txt = A.expr(e)
            feat = {'construct': 'nest2', 'op': o1, 'op2': o2, 'shape': shape,
                    'flat': '(' not in txt, 'key': txt}
            items.append(Item([A.Print([e])], feat, size=len(txt)))
    # literal atoms (foldable): one triple
    for shape in ('L', 'R'):
        a, b, c = A.Lit('7'), A.Lit('2'), A.Lit('3')
        e = A.Bin(o2, A.Bin(o1, a, b), c) if shape == 'L' else A.Bin(o1, a, A.Bin(o2, b, c))
        txt = A.expr(e)
        feat = {'construct': 'nest2', 'op': o1, 'op2': o2, 'shape': shape, 'flat': '(' not in txt,
                'form': 'lit', 'key': txt}
        items.append(Item([A.Print([e])], feat, size=len(txt)))
    return Case('F3', items, pre=_atom_pre(tier))


def build_f3u(d):
    _, tier, u, o = d
    atoms = [A.Var(n) for n, _ in _atoms(tier)]
    items = []
    for x, y in itertools.product(atoms, repeat=2):
        shapes = [('U(B)', A.Un(u, A.Bin(o, x, y))),
                  ('B(U,_)', A.Bin(o, A.Un(u, x), y)),
                  ('B(_,U)', A.Bin(o, x, A.Un(u, y)))]
        for shape, e in shapes:
            txt = A.expr(e)
            feat = {'construct': 'nest-unary', 'op': u, 'op2': o, 'shape': shape,
                    'flat': '(' not in txt, 'key': txt}
            items.append(Item([A.Print([e])], feat, size=len(txt)))
    for x in atoms:
        for u2 in F3_UNARY:
            e = A.Un(u, A.Un(u2, x))
            txt = A.expr(e)
            feat = {'construct': 'nest-unary', 'op': u, 'op2': u2, 'shape': 'U(U)',
                    'flat': '(' not in txt, 'key': txt}
            items.append(Item([A.Print([e])], feat, size=len(txt)))
    return Case('F3', items, pre=_atom_pre(tier))


BUILDERS = {'F1': build_f1, 'F2u': build_f2u, 'F2b': build_f2b, 'F3': build_f3,
            'F3u': build_f3u, 'F4': build_f4}
