"""E3 - bounded program spaces: own AST (`ast`), renderer, typed enumerators."""
from .ast import *          # noqa: F401,F403
from .ast import render, expr as render_expr  # noqa: F401
