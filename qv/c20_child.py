"""C20 - child process: compiles / runs what the parent asks for under the
hash seed and working directory the parent chose, and reports digests.

    /venv/bin/python -m qv.c20_child  < job.json  > result.json

The parse cache is never enabled here: determinism of the whole compile is
what is under test.  Job modes:

  tree : fork-tree exploration of compile histories.  After compiling a
         history (each program in the job's configuration) the process
         forks once per next program, so every history is a prefix of
         process state reached by really compiling it, and siblings do not
         see each other.  A record is produced for every node:
         [history indices, target index, [o, g] of the history, [o, g] of the
         target, digest].
  seq  : compile the items one after the other in this process
         (item = [key, source, o, g]); record = [key, digest].
  run  : run modules: item = [key, binary(base64), script, kind] with kind
         'env' (scripted Env) or 'realrng' (peripherals derived from the
         shipped BasePeripheralsImpl); record = [key, digest of outcome].
"""
import base64
import hashlib
import json
import os
import sys


def _h(b):
    if isinstance(b, str):
        b = b.encode('utf-8', 'surrogatepass')
    return hashlib.sha1(b).hexdigest()[:16]


def digest(r, impl, full=False):
    """what the property speaks about: sections 1-4 and the listing"""
    if r.kind == 'ok':
        sec = impl.split_sections(r.binary)
        d = ['ok'] + [_h(sec.get(i, b'')) for i in (1, 2, 3, 4)] + [_h(r.listing)]
        if full:
            d.append({'sections': {str(i): sec.get(i, b'').hex() for i in (1, 2, 3, 4)},
                      'listing': r.listing})
        return d
    if r.kind in ('syntax', 'compile'):
        return [r.kind, r.err_code, r.loc]
    return [r.kind, r.exc, r.stage]


def _compile(impl, src, o, g, full=False):
    return digest(impl.compile_text(src, o, bool(g)), impl, full)


def tree(impl, job):
    progs = job['programs']
    maxlen = job['maxlen']            # history + target
    mixed = job.get('mixed_depth', 0)
    allcfg = [tuple(c) for c in job.get('all_configs', [])]
    records = []
    for cfg in job['configs']:
        o, g = cfg
        records.extend(_tree(impl, progs, (o, g), [], maxlen, job['firsts'],
                             mixed, allcfg))
    return records


def _fork_collect(fn):
    r, w = os.pipe()
    pid = os.fork()
    if pid == 0:
        code = 0
        try:
            os.close(r)
            out = fn()
            with os.fdopen(w, 'w') as f:
                json.dump(out, f)
        except BaseException as e:  # noqa
            try:
                sys.stderr.write('c20_child fork failed: %r\n' % (e,))
            except Exception:
                pass
            code = 3
        os._exit(code)
    os.close(w)
    with os.fdopen(r) as f:
        data = f.read()
    _, status = os.waitpid(pid, 0)
    if status != 0 or not data:
        raise RuntimeError('forked node failed (status %r)' % (status,))
    return json.loads(data)


def _tree(impl, progs, cfg, hist, maxlen, firsts, mixed, allcfg):
    out = []
    cands = firsts if not hist else range(len(progs))
    for p in cands:
        def node(p=p):
            recs = [[hist, p, list(cfg), list(cfg), _compile(impl, progs[p], *cfg)]]
            h2 = hist + [p]
            if len(h2) < maxlen:
                recs.extend(_tree(impl, progs, cfg, h2, maxlen, firsts, mixed, allcfg))
                if len(h2) <= mixed:
                    # history compiled under cfg, target under every other configuration
                    for q in range(len(progs)):
                        for c2 in allcfg:
                            if c2 == cfg:
                                continue
                            recs.extend(_fork_collect(
                                lambda q=q, c2=c2: [[h2, q, list(cfg), list(c2),
                                                     _compile(impl, progs[q], *c2)]]))
            return recs
        out.extend(_fork_collect(node))
    return out


def seq(impl, job):
    full = job.get('full', False)
    return [[key, _compile(impl, src, o, g, full)] for key, src, o, g in job['items']]


def _real_rng_env(impl, script):
    """peripherals object of the shipped base class (its Random is seeded in
    __init__), terminal / timer / everything without a base implementation
    replaced by recorders"""
    from qvm.machine import BasePeripheralsImpl

    class RealRng(BasePeripheralsImpl):
        def __init__(self, script):
            super().__init__()
            self.events = []
            self._timer = list((script or {}).get('timer', []))
            self._inkey = list((script or {}).get('inkey', []))

        def terminal_print(self, text):
            if self.events and self.events[-1][0] == 'print':
                self.events[-1] = ('print', self.events[-1][1] + text)
            else:
                self.events.append(('print', text))

        def terminal_input(self, same_line):
            raise impl.Exhausted('input')

        def terminal_inkey(self):
            a = self._inkey.pop(0) if self._inkey else ''
            self.events.append(('inkey', a))
            return a

        def time_get_time(self):
            a = self._timer.pop(0) if self._timer else 0.0
            self.events.append(('timer', a))
            return a

        def __getattr__(self, attr):
            if attr.startswith('_'):
                raise AttributeError(attr)
            for d in ('terminal', 'pcspkr', 'data', 'misc'):
                if attr.startswith(d + '_'):
                    def rec(*args, _d=d, _op=attr[len(d) + 1:]):
                        self.events.append(('dev', _d, _op) + args)
                    return rec
            raise AttributeError(attr)

    return RealRng(script)


def run_one(impl, binary, script, kind, horizon=200000):
    mod = impl.load(binary)
    if kind == 'realrng':
        env = _real_rng_env(impl, script)
    else:
        env = impl.Env(script)
    out, _ = impl.run_module(mod, env, horizon=horizon)
    return out


def run_digest(impl, out, full=False):
    ev = json.dumps(impl.jsonable(out.events), sort_keys=True)
    d = [out.end, out.trap, out.exc, out.trapped_addr, out.ticks, _h(ev)]
    if full:
        d.append(impl.jsonable(out.events))
    return d


def runs(impl, job):
    res = []
    full = job.get('full', False)
    for key, b64, script, kind in job['items']:
        out = run_one(impl, base64.b64decode(b64), script, kind)
        res.append([key, run_digest(impl, out, full)])
    return res


def main():
    real_out = os.fdopen(os.dup(1), 'w')
    devnull = open(os.devnull, 'w')
    os.dup2(devnull.fileno(), 1)
    sys.stdout = devnull
    job = json.load(sys.stdin)
    from qv import impl
    mode = job['mode']
    if mode == 'tree':
        rec = tree(impl, job)
    elif mode == 'seq':
        rec = seq(impl, job)
    elif mode == 'run':
        rec = runs(impl, job)
    else:
        raise SystemExit('unknown mode')
    json.dump({'seed': os.environ.get('PYTHONHASHSEED'), 'cwd': os.getcwd(),
               'records': rec}, real_out)
    real_out.flush()


if __name__ == '__main__':
    main()
