"""C20 - child process: compiles / runs what the parent asks for under the
hash seed and working directory the parent chose, and reports digests.

    /venv/bin/python -m qv.c20_child  < job.json  > result.json

The parse cache is never enabled here: determinism of the whole compile
(parser included) is what is under test.  Job modes:

  seqs : job['programs'] = list of sources, job['seqs'] = list of compile
         sequences, a sequence = [[program index, o, g], ...].
         The sequences are compiled one after the other in this process (the
         parent sends one sequence per fresh interpreter).  There is no
         forking: a forked copy of a Python process that has imported qbee
         costs 0.3 - 5 CPU seconds here (copy-on-write page faults).
         Result: one list of digests per sequence (one digest per position).
  run  : run modules: item = [key, binary(base64), script, kind] with kind
         'env' (scripted Env) or 'realrng' (peripherals derived from the
         shipped BasePeripheralsImpl); record = [key, digest of outcome].
"""
import base64
import hashlib
import json
import os
import sys


def _h(b):
    if isinstance(b, str):
        b = b.encode('utf-8', 'surrogatepass')
    return hashlib.sha1(b).hexdigest()[:16]


def digest(r, impl, full=False):
    """what the property speaks about: sections 1-4 and the listing"""
    if r.kind == 'ok':
        sec = impl.split_sections(r.binary)
        d = ['ok'] + [_h(sec.get(i, b'')) for i in (1, 2, 3, 4)] + [_h(r.listing)]
        if full:
            d.append({'sections': {str(i): sec.get(i, b'').hex() for i in (1, 2, 3, 4)},
                      'listing': r.listing})
        return d
    if r.kind in ('syntax', 'compile'):
        return [r.kind, r.err_code, r.loc]
    return [r.kind, r.exc, r.stage]


def _compile(impl, src, o, g, full=False):
    return digest(impl.compile_text(src, o, bool(g)), impl, full)


def seqs(impl, job):
    progs = job['programs']
    full = job.get('full', False)

    def one(seq):
        out = []
        for i, (p, o, g) in enumerate(seq):
            out.append(_compile(impl, progs[p], o, g, full and i == len(seq) - 1))
        return out

    res = []
    for seq in job['seqs']:
        res.append(one(seq))
    return res


def _real_rng_env(impl, script):
    """peripherals object of the shipped base class (its Random is seeded in
    __init__), terminal / timer / everything without a base implementation
    replaced by recorders"""
    from qvm.machine import BasePeripheralsImpl

    class RealRng(BasePeripheralsImpl):
        def __init__(self, script):
            super().__init__()
            self.events = []
            self._timer = list((script or {}).get('timer', []))
            self._inkey = list((script or {}).get('inkey', []))

        def terminal_print(self, text):
            if self.events and self.events[-1][0] == 'print':
                self.events[-1] = ('print', self.events[-1][1] + text)
            else:
                self.events.append(('print', text))

        def terminal_input(self, same_line):
            raise impl.Exhausted('input')

        def terminal_inkey(self):
            a = self._inkey.pop(0) if self._inkey else ''
            self.events.append(('inkey', a))
            return a

        def time_get_time(self):
            a = self._timer.pop(0) if self._timer else 0.0
            self.events.append(('timer', a))
            return a

        def __getattr__(self, attr):
            if attr.startswith('_'):
                raise AttributeError(attr)
            for d in ('terminal', 'pcspkr', 'data', 'misc'):
                if attr.startswith(d + '_'):
                    def rec(*args, _d=d, _op=attr[len(d) + 1:]):
                        self.events.append(('dev', _d, _op) + args)
                    return rec
            raise AttributeError(attr)

    return RealRng(script)


def run_one(impl, binary, script, kind, horizon=200000):
    mod = impl.load(binary)
    if kind == 'realrng':
        env = _real_rng_env(impl, script)
    else:
        env = impl.Env(script)
    out, _ = impl.run_module(mod, env, horizon=horizon)
    return out


def run_digest(impl, out, full=False):
    ev = json.dumps(impl.jsonable(out.events), sort_keys=True)
    d = [out.end, out.trap, out.exc, out.trapped_addr, out.ticks, _h(ev)]
    if full:
        d.append(impl.jsonable(out.events))
    return d


def runs(impl, job):
    res = []
    full = job.get('full', False)
    for key, b64, script, kind in job['items']:
        out = run_one(impl, base64.b64decode(b64), script, kind)
        res.append([key, run_digest(impl, out, full)])
    return res


def main():
    real_out = os.fdopen(os.dup(1), 'w')
    devnull = open(os.devnull, 'w')
    os.dup2(devnull.fileno(), 1)
    sys.stdout = devnull
    job = json.load(sys.stdin)
    from qv import impl
    if getattr(impl, '_proxy', None) is not None:
        raise SystemExit('parse cache active in a C20 child')
    mode = job['mode']
    if mode == 'seqs':
        rec = seqs(impl, job)
    elif mode == 'run':
        rec = runs(impl, job)
    else:
        raise SystemExit('unknown mode')
    json.dump({'seed': os.environ.get('PYTHONHASHSEED'), 'cwd': os.getcwd(),
               'records': rec}, real_out)
    real_out.flush()


if __name__ == '__main__':
    main()
