"""C07 catalogues: generated programs in which the cause of a run-time error is
known by construction, statements outside the reference subset with limit
values, device-using programs, and the interrupt-schedule programs.

Nothing here looks at the implementation; expectations follow
docs/REFSEM.md section 9 (error class <-> trap class).
"""
import itertools
import re

OVF = 'INVALID_CELL_VALUE'        # Overflow
DIV0 = 'DIVISION_BY_ZERO'
SUBS = 'INDEX_OUT_OF_RANGE'       # Subscript out of range
IFC = 'INVALID_OPERAND_VALUE'     # Illegal function call
DEV = 'DEVICE_ERROR'              # out of DATA / bad DATA text / device failure
KBD = 'KEYBOARD_INTERRUPT'


def TRAP(*cls):
    return ('trap', tuple(sorted(cls)))


def MAYBE(*cls):
    """may complete; if an error is reported its class must be one of cls"""
    return ('maybe', tuple(sorted(cls)))


OK = ('ok',)
ANY = ('any',)          # totality only

TYPES = ['%', '&', '!', '#']
TNAME = {'%': 'INTEGER', '&': 'LONG', '!': 'SINGLE', '#': 'DOUBLE', '$': 'STRING'}
ARMINGS = ['none', 'goto', 'next']
# further handler shapes (all armed with ON ERROR GOTO h):
#   goto0  the handler gives up: ON ERROR GOTO 0 inside the handler re-raises the error
#   fail   the handler itself fails (a second error inside a handler is fatal)
#   end    the handler ends the program without RESUME
HANDLER_MODES = ['goto0', 'fail', 'end']
ALL_ARMINGS = ARMINGS + HANDLER_MODES


def arm_head(arming):
    """statement(s) that arm the handler, first lines of the program"""
    if arming == 'none':
        return []
    if arming == 'next':
        return ['ON ERROR RESUME NEXT']
    return ['ON ERROR GOTO h']


def handler_tail(arming):
    """the handler, placed after the END of the module-level code"""
    if arming == 'goto':
        return ['h:', 'PRINT "H"', 'RESUME NEXT']
    if arming == 'goto0':
        return ['h:', 'PRINT "H"', 'ON ERROR GOTO 0', 'PRINT "not reached"', 'END']
    if arming == 'fail':
        # an error that needs no variable: the handler may run in a procedure's frame
        return ['h:', 'PRINT "H"', 'PRINT ASC("")', 'PRINT "not reached"', 'RESUME NEXT']
    if arming == 'end':
        return ['h:', 'PRINT "H"', 'END']
    return []


def _case(cid, cause, construct, expect, setup=(), expr=None, rtype='n',
          stmt=None, types=(), data=(), tail=(), tier='q', operands=''):
    assert (expr is None) != (stmt is None)
    # an unsuffixed decimal literal is SINGLE in qbee whatever its digit count;
    # a value meant for a DOUBLE variable is written with the # suffix so that
    # the limit values arrive exactly
    setup = [_DBL_LIT.sub(r'\1\2#', x) for x in setup]
    return {'id': cid, 'cause': cause, 'construct': construct, 'expect': expect,
            'setup': list(setup), 'expr': expr, 'rtype': rtype,
            'stmt': list(stmt) if stmt is not None else None,
            'types': list(types), 'data': list(data), 'tail': list(tail),
            'tier': tier, 'operands': operands}


_DBL_LIT = re.compile(r'^(\w+# = )(-?[0-9]*\.?[0-9]+)$')


# ---------------------------------------------------------------------------
# (a) causes

def _rtype_arith(lt, rt):
    for t in ('#', '!', '&', '%'):
        if t in (lt, rt):
            return t


def div_cases():
    out = []
    for op, name in (('/', 'div'), ('\\', 'idiv'), ('MOD', 'mod')):
        for lt, rt in itertools.product(TYPES, TYPES):
            for dv, dtag in (('7', 'pos'), ('0', 'zero'), ('-7', 'neg')):
                tier = 'q' if dv == '7' or (lt == rt) else 't'
                out.append(_case(
                    f'div0/{name}/{TNAME[lt]}-{TNAME[rt]}/{dtag}', 'div0', op, TRAP(DIV0),
                    setup=[f'a{lt} = {dv}', f'b{rt} = 0'], expr=f'a{lt} {op} b{rt}',
                    tier=tier, operands=lt + rt))
        # a floating divisor that rounds to zero in the integral operators
        if op != '/':
            for rt in ('!', '#'):
                for z in ('0.4', '-0.5', '0.5'):
                    out.append(_case(
                        f'div0/{name}/rounds-to-zero/{TNAME[rt]}/{z}', 'div0', op, TRAP(DIV0),
                        setup=['a% = 7', f'b{rt} = {z}'], expr=f'a% {op} b{rt}',
                        operands='%' + rt))
    # zero to a negative power
    for t in TYPES:
        out.append(_case(f'div0/exp/zero-to-negative/{TNAME[t]}', 'div0', '^', TRAP(DIV0),
                         setup=[f'a{t} = 0', f'b{t} = -1'], expr=f'a{t} ^ b{t}',
                         operands=t + t))
    # controls: non-zero divisors complete
    for op in ('/', '\\', 'MOD'):
        for t in TYPES:
            out.append(_case(f'control/div/{op}/{TNAME[t]}', 'none', op, OK,
                             setup=[f'a{t} = 7', f'b{t} = 2'], expr=f'a{t} {op} b{t}',
                             operands=t + t))
    return out


LIM = {
    '%': dict(max='32767', min='-32768', big='200', one='1'),
    '&': dict(max='2147483647', min='-2147483648', big='65536', one='1'),
    '!': dict(max='3e38', min='-3e38', big='1e20', one='3e38'),
    '#': dict(max='1d308', min='-1d308', big='1d200', one='1d308'),
}


def overflow_arith_cases():
    out = []
    for t in TYPES:
        L = LIM[t]
        # DOUBLE has no range check in the implementation's cell; QBASIC
        # reports Overflow.  The statement only requires the *reported* class
        # to match, so DOUBLE cells are 'maybe'.
        exp = MAYBE(OVF) if t == '#' else TRAP(OVF)
        n = TNAME[t]
        out.append(_case(f'overflow/add/{n}', 'overflow', '+', exp,
                         setup=[f'a{t} = {L["max"]}', f'b{t} = {L["one"]}'],
                         expr=f'a{t} + b{t}', operands=t + t))
        out.append(_case(f'overflow/sub/{n}', 'overflow', '-', exp,
                         setup=[f'a{t} = {L["min"]}', f'b{t} = {L["one"]}'],
                         expr=f'a{t} - b{t}', operands=t + t))
        out.append(_case(f'overflow/mul/{n}', 'overflow', '*', exp,
                         setup=[f'a{t} = {L["big"]}', f'b{t} = {L["big"]}'],
                         expr=f'a{t} * b{t}', operands=t + t))
        if t in '%&':
            out.append(_case(f'overflow/neg/{n}', 'overflow', 'neg', TRAP(OVF),
                             setup=[f'a{t} = {L["min"]}'], expr=f'-a{t}', operands=t))
            out.append(_case(f'overflow/abs/{n}', 'overflow', 'ABS', TRAP(OVF),
                             setup=[f'a{t} = {L["min"]}'], expr=f'ABS(a{t})', operands=t))
        # mixed operand types: INTEGER op LONG is LONG, so no overflow
        out.append(_case(f'control/add/{n}', 'none', '+', OK,
                         setup=[f'a{t} = 5', f'b{t} = 6'], expr=f'a{t} + b{t}',
                         operands=t + t))
    out.append(_case('control/add/INTEGER+LONG-no-overflow', 'none', '+', OK,
                     setup=['a% = 32767', 'b& = 1'], expr='a% + b&', operands='%&'))
    # the power operator
    pw = [
        ('%', '2', '15', TRAP(OVF), 'fits-not'), ('%', '-2', '16', TRAP(OVF), 'neg-base'),
        ('%', '32767', '32767', TRAP(OVF), 'astronomic'),
        ('%', '-2', '15', OK, 'exact-min'), ('%', '2', '14', OK, 'fits'),
        ('&', '2', '31', TRAP(OVF), 'fits-not'), ('&', '2', '40', TRAP(OVF), 'big'),
        ('&', '2147483647', '2147483647', TRAP(OVF), 'astronomic'),
        ('&', '2', '30', OK, 'fits'),
        ('!', '10', '39', TRAP(OVF), 'fits-not'), ('!', '1e20', '2', TRAP(OVF), 'square'),
        ('!', '3e38', '3e38', TRAP(OVF), 'astronomic'), ('!', '10', '30', OK, 'fits'),
        ('#', '10', '309', MAYBE(OVF), 'fits-not'), ('#', '1d200', '2', MAYBE(OVF), 'square'),
        ('#', '1d308', '1d308', MAYBE(OVF), 'astronomic'), ('#', '10', '300', OK, 'fits'),
        ('#', '10', '-400', OK, 'underflow'),
    ]
    for t, a, b, exp, tag in pw:
        cause = 'none' if exp == OK else 'overflow'
        out.append(_case(f'{"control" if exp == OK else "overflow"}/exp/{TNAME[t]}/{tag}', cause, '^', exp,
                         setup=[f'a{t} = {a}', f'b{t} = {b}'], expr=f'a{t} ^ b{t}',
                         operands=t + t))
    # negative base, fractional exponent: not a real number (class: either)
    for t in ('!', '#'):
        for a, b in (('-8', '0.5'), ('-8', '-0.5'), ('-1', '1.5')):
            out.append(_case(f'ifc/exp/negative-base-fraction/{TNAME[t]}/{a}^{b}', 'ifc', '^',
                             TRAP(IFC, OVF), setup=[f'a{t} = {a}', f'b{t} = {b}'],
                             expr=f'a{t} ^ b{t}', operands=t + t))
    # mixed operand types of ^
    for lt, rt in itertools.product(TYPES, TYPES):
        if lt == rt:
            continue
        rtp = _rtype_arith(lt, rt)
        big = {'%': ('2', '15'), '&': ('2', '31'), '!': ('10', '39'), '#': ('10', '309')}[rtp]
        exp = MAYBE(OVF) if rtp == '#' else TRAP(OVF)
        out.append(_case(f'overflow/exp/mixed/{TNAME[lt]}-{TNAME[rt]}', 'overflow', '^', exp,
                         setup=[f'a{lt} = {big[0]}', f'b{rt} = {big[1]}'],
                         expr=f'a{lt} ^ b{rt}', tier='t', operands=lt + rt))
    return out


def nonfinite_cases():
    """a DOUBLE result beyond the range: Overflow may be reported where it
    arises or where the value is used, or not at all (DOUBLE cells are not
    range checked) - but the use must not crash the machine"""
    out = []
    INFS = ['a# = 1d308', 'b# = a# * 10']
    NANS = INFS + ['n# = b# - b#']
    for tag, setup, v in (('inf', INFS, 'b#'), ('nan', NANS, 'n#'), ('-inf', INFS, '(-b#)')):
        exprs = [('CINT', f'CINT({v})', 'n'), ('CLNG', f'CLNG({v})', 'n'), ('INT', f'INT({v})', 'n'),
                 ('idiv', f'{v} \\ 2', 'n'), ('mod', f'{v} MOD 2', 'n'), ('and', f'{v} AND 1', 'n'),
                 ('not', f'NOT {v}', 'n'), ('CHR$', f'CHR$({v})', 's'), ('STR$', f'STR$({v})', 's'),
                 ('SPACE$', f'SPACE$({v})', 's'), ('add', f'{v} + 1', 'n'), ('mul', f'{v} * 0', 'n'),
                 ('div', f'1 / {v}', 'n'), ('exp', f'{v} ^ 2', 'n'), ('compare', f'{v} > 1', 'n'),
                 ('ABS', f'ABS({v})', 'n')]
        for name, e, rt in exprs:
            out.append(_case(f'nonfinite/{tag}/{name}', 'overflow', 'non-finite', MAYBE(OVF, IFC, DIV0),
                             setup=setup, expr=e, rtype=rt, operands='#',
                             tier='q' if tag != '-inf' else 't'))
        stmts = [('to-INTEGER', [f'c% = {v}']), ('to-LONG', [f'c& = {v}']), ('to-SINGLE', [f'c! = {v}']),
                 ('subscript', ['DIM x%(3)', f'x%({v}) = 1']), ('FOR-limit', [f'FOR i% = 1 TO {v}', 'NEXT']),
                 # (from -inf the loop never ends: -inf + 1 = -inf; not a totality matter)
                 ] + ([('FOR-double', [f'FOR d# = {v} TO 1', 'NEXT'])] if tag != '-inf' else []) + [

                 ('SELECT', [f'SELECT CASE {v}', 'CASE 1', 'PRINT "c"', 'END SELECT']),
                 ('PRINT', [f'PRINT {v}; "x", {v}']), ('PRINT-USING', [f'PRINT USING "##.##"; {v}']),
                 ('LOCATE', [f'LOCATE {v}, 1']), ('SOUND', [f'SOUND {v}, 1']),
                 ('value-parameter', [f'CALL cq(({v}))'])]
        for name, st in stmts:
            out.append(_case(f'nonfinite/{tag}/{name}', 'overflow', 'non-finite', MAYBE(OVF, IFC, DIV0),
                             setup=setup, stmt=st, operands='#',
                             tail=['SUB cq (p%)', 'PRINT "q"', 'END SUB'] if name == 'value-parameter' else (),
                             tier='q' if tag != '-inf' else 't'))
    return out


def overflow_conv_cases():
    out = []
    # conversion functions
    fn = [
        ('CINT', '&', '32768'), ('CINT', '&', '-32769'), ('CINT', '!', '32767.5'),
        ('CINT', '!', '1e10'), ('CINT', '#', '32767.5'), ('CINT', '#', '-32768.6'),
        ('CINT', '#', '1d300'), ('CINT', '!', '-3e38'),
        ('CLNG', '!', '3e9'), ('CLNG', '#', '2147483647.5'), ('CLNG', '#', '-2147483649'),
        ('CLNG', '#', '1d300'), ('CLNG', '!', '3e38'),
        ('INT', '!', '1e10'), ('INT', '#', '1d300'), ('INT', '#', '-1d300'),
        ('INT', '!', '-3e38'),
    ]
    for f, t, v in fn:
        out.append(_case(f'overflow/{f}/{TNAME[t]}/{v}', 'overflow', f, TRAP(OVF),
                         setup=[f'a{t} = {v}'], expr=f'{f}(a{t})', operands=t))
    ctl = [('CINT', '!', '32767.4'), ('CINT', '#', '-32768.4'), ('CINT', '&', '32767'),
           ('CLNG', '#', '2147483647.4'), ('CLNG', '!', '2e9'), ('INT', '#', '2147483647.9'),
           ('INT', '!', '-0.5')]
    for f, t, v in ctl:
        out.append(_case(f'control/{f}/{TNAME[t]}/{v}', 'none', f, OK,
                         setup=[f'a{t} = {v}'], expr=f'{f}(a{t})', operands=t))
    # builtin arguments converted to INTEGER / LONG before the call
    argconv = [
        ('CHR$', 'CHR$(a&)', 's', '&', '40000'), ('CHR$', 'CHR$(a!)', 's', '!', '1e10'),
        ('SPACE$', 'SPACE$(a&)', 's', '&', '40000'), ('SPACE$', 'SPACE$(a#)', 's', '#', '1d10'),
        ('LEFT$', 'LEFT$("abc", a&)', 's', '&', '40000'),
        ('RIGHT$', 'RIGHT$("abc", a&)', 's', '&', '-40000'),
        ('MID$', 'MID$("abc", a&)', 's', '&', '40000'),
        ('MID$', 'MID$("abc", 1, a&)', 's', '&', '40000'),
        ('STRING$', 'STRING$(a&, "x")', 's', '&', '40000'),
        ('STRING$', 'STRING$(2, a&)', 's', '&', '40000'),
        ('INSTR', 'INSTR(a#, "abc", "b")', 'n', '#', '1d10'),
    ]
    for f, e, rt, t, v in argconv:
        out.append(_case(f'overflow/argument/{f}/{e}/{TNAME[t]}', 'overflow', f, TRAP(OVF),
                         setup=[f'a{t} = {v}'], expr=e, rtype=rt, operands=t))
    # assignment conversions
    pairs = [
        ('&', '%', ['32768', '-32769', '2147483647'], ['32767', '-32768']),
        ('!', '%', ['32768', '32767.5', '-32769', '1e10', '-3e38'], ['32767.4', '-32768.4']),
        ('#', '%', ['32768', '32767.5', '-32768.6', '1d300'], ['32767.4', '-32768.5']),
        ('!', '&', ['2147483648', '3e9', '-3e9', '3e38'], ['2e9', '-2e9']),
        ('#', '&', ['2147483648', '2147483647.5', '-2147483649', '1d300'],
         ['2147483647.4', '-2147483648.5']),
        ('#', '!', ['1d39', '-1d39', '1d308'], ['3d38', '1d-300']),
    ]
    targets = [
        ('var', [], 'd{t} = a{s}'),
        ('element', ['DIM e{t}(3)'], 'e{t}(1) = a{s}'),
        ('field', [], 'fr.f{n} = a{s}'),
    ]
    rectypes = ['TYPE crec', 'fi AS INTEGER', 'fl AS LONG', 'fs AS SINGLE', 'fd AS DOUBLE',
                'END TYPE']
    fieldname = {'%': 'i', '&': 'l', '!': 's', '#': 'd'}
    for s, t, bad, good in pairs:
        for tg, tsetup, form in targets:
            for v in bad + good:
                exp = TRAP(OVF) if v in bad else OK
                cause = 'overflow' if v in bad else 'none'
                tier = 'q' if tg == 'var' or v in (bad[0], good[0]) else 't'
                setup = [x.format(t=t, s=s) for x in tsetup]
                types = ()
                if tg == 'field':
                    types = rectypes
                    setup = ['DIM fr AS crec']
                setup.append(f'a{s} = {v}')
                out.append(_case(
                    f'{"overflow" if v in bad else "control"}/assign/{TNAME[s]}-to-{TNAME[t]}/{tg}/{v}',
                    cause, 'assign', exp, setup=setup, types=types,
                    stmt=[form.format(t=t, s=s, n=fieldname[t])], tier=tier, operands=s + t))
    # value parameter of a SUB
    for s, t, bad, good in pairs:
        out.append(_case(f'overflow/argument/SUB/{TNAME[s]}-to-{TNAME[t]}', 'overflow', 'CALL',
                         TRAP(OVF), setup=[f'a{s} = {bad[0]}'], stmt=[f'CALL cq((a{s}))'],
                         tail=[f'SUB cq (p{t})', 'PRINT "q"', 'END SUB'], operands=s + t))
    # FOR
    out.append(_case('overflow/FOR/step-past-limit/INTEGER', 'overflow', 'FOR', TRAP(OVF),
                     stmt=['FOR i% = 32766 TO 32767', 'NEXT']))
    out.append(_case('overflow/FOR/step-past-limit/INTEGER-down', 'overflow', 'FOR', TRAP(OVF),
                     stmt=['FOR i% = -32767 TO -32768 STEP -1', 'NEXT']))
    out.append(_case('overflow/FOR/step-past-limit/LONG', 'overflow', 'FOR', TRAP(OVF),
                     stmt=['FOR i& = 2147483646 TO 2147483647', 'NEXT']))
    out.append(_case('overflow/FOR/bound-conversion', 'overflow', 'FOR', TRAP(OVF),
                     setup=['a& = 40000'], stmt=['FOR i% = 1 TO a&', 'NEXT']))
    out.append(_case('overflow/FOR/start-conversion', 'overflow', 'FOR', TRAP(OVF),
                     setup=['a& = 40000'], stmt=['FOR i% = a& TO 1', 'NEXT']))
    out.append(_case('overflow/FOR/step-conversion', 'overflow', 'FOR', TRAP(OVF),
                     setup=['a& = 40000'], stmt=['FOR i% = 1 TO 2 STEP a&', 'NEXT']))
    out.append(_case('control/FOR/to-limit-minus-one', 'none', 'FOR', OK,
                     stmt=['FOR i% = 32765 TO 32766', 'NEXT']))
    # SELECT CASE clause value converted to the selector's type
    out.append(_case('overflow/SELECT/clause-conversion', 'overflow', 'SELECT', MAYBE(OVF),
                     setup=['a% = 1', 'b& = 40000'],
                     stmt=['SELECT CASE a%', 'CASE b&', 'PRINT "c"', 'END SELECT']))
    return out


ELEM = ['%', '&', '!', '#', '$']


def subscript_cases():
    out = []
    for t in ELEM:
        val = '"v"' if t == '$' else '1'
        rt = 's' if t == '$' else 'n'
        n = TNAME[t]
        tier = 'q' if t in '%$#' else 't'
        dims = [
            ('static', [f'DIM a{t}(5)'], ['6', '-1'], ['0', '5']),
            ('static-lb', [f'DIM a{t}(2 TO 4)'], ['1', '5'], ['2', '4']),
            ('dynamic', ['n% = 5', f'DIM a{t}(n%)'], ['6', '-1'], ['0', '5']),
            ('dynamic-lb', ['n% = 2', f'DIM a{t}(n% TO n% + 2)'], ['1', '5'], ['2', '4']),
        ]
        for dn, setup, bad, good in dims:
            for ix in bad + good:
                exp = TRAP(SUBS) if ix in bad else OK
                cause = 'subscript' if ix in bad else 'none'
                pre = 'subscript' if ix in bad else 'control'
                out.append(_case(f'{pre}/read/{dn}/{n}/{ix}', cause, 'element-read', exp,
                                 setup=setup + [f'i% = {ix}'], expr=f'a{t}(i%)', rtype=rt,
                                 tier=tier, operands=t))
                out.append(_case(f'{pre}/write/{dn}/{n}/{ix}', cause, 'element-write', exp,
                                 setup=setup + [f'i% = {ix}'], stmt=[f'a{t}(i%) = {val}'],
                                 tier=tier, operands=t))
    # index of each numeric type (converted to LONG, rounded)
    for it, v, bad in (('&', '6', True), ('!', '5.6', True), ('#', '-0.6', True),
                       ('!', '5.4', False), ('#', '-0.4', False), ('&', '100000', True),
                       ('&', '-2147483648', True), ('&', '2147483647', True)):
        out.append(_case(f'{"subscript" if bad else "control"}/index-type/{TNAME[it]}/{v}',
                         'subscript' if bad else 'none', 'element-read',
                         TRAP(SUBS) if bad else OK,
                         setup=['DIM a%(5)', f'i{it} = {v}'], expr=f'a%(i{it})', operands=it))
    for it, v in (('!', '1e10'), ('#', '1d300'), ('#', '-3d9')):
        out.append(_case(f'overflow/index-conversion/{TNAME[it]}/{v}', 'overflow', 'element-read',
                         TRAP(OVF, SUBS), setup=['DIM a%(5)', f'i{it} = {v}'],
                         expr=f'a%(i{it})', operands=it))
    # two dimensions
    two = [('3', '1', True), ('0', '0', True), ('0', '4', True), ('-1', '1', True),
           ('2', '3', False), ('0', '1', False)]
    for dn, setup in (('static', ['DIM c%(2, 1 TO 3)']),
                      ('dynamic', ['n% = 2', 'DIM c%(n%, 1 TO n% + 1)'])):
        for i, j, bad in two:
            pre = 'subscript' if bad else 'control'
            out.append(_case(f'{pre}/read/2dim-{dn}/{i},{j}', 'subscript' if bad else 'none',
                             'element-read', TRAP(SUBS) if bad else OK,
                             setup=setup + [f'i% = {i}', f'j% = {j}'], expr='c%(i%, j%)'))
            out.append(_case(f'{pre}/write/2dim-{dn}/{i},{j}', 'subscript' if bad else 'none',
                             'element-write', TRAP(SUBS) if bad else OK,
                             setup=setup + [f'i% = {i}', f'j% = {j}'], stmt=['c%(i%, j%) = 1'],
                             tier='t'))
    # arrays of records
    rec = ['TYPE srec', 'f AS INTEGER', 'g AS STRING', 'END TYPE']
    for ix, bad in (('4', True), ('-1', True), ('3', False)):
        pre = 'subscript' if bad else 'control'
        out.append(_case(f'{pre}/read/record-array/{ix}', 'subscript' if bad else 'none',
                         'element-read', TRAP(SUBS) if bad else OK, types=rec,
                         setup=['DIM r(3) AS srec', f'i% = {ix}'], expr='r(i%).f'))
        out.append(_case(f'{pre}/write/record-array/{ix}', 'subscript' if bad else 'none',
                         'element-write', TRAP(SUBS) if bad else OK, types=rec,
                         setup=['DIM r(3) AS srec', f'i% = {ix}'], stmt=['r(i%).g = "v"']))
    # array parameter
    for dn, setup in (('static', ['DIM a%(5)']), ('dynamic', ['n% = 5', 'DIM a%(n%)'])):
        for ix, bad in (('6', True), ('5', False)):
            pre = 'subscript' if bad else 'control'
            out.append(_case(f'{pre}/write/array-parameter-{dn}/{ix}',
                             'subscript' if bad else 'none', 'element-write',
                             TRAP(SUBS) if bad else OK,
                             setup=setup + [f'i% = {ix}'], stmt=['CALL cw(a%(), i%)'],
                             tail=['SUB cw (p%(), k%)', 'p%(k%) = 1', 'PRINT "w"', 'END SUB']))
    # DIM with lower > upper (at run time)
    for lo, hi, bad in (('5', '1', True), ('1', '0', True), ('0', '-1', True), ('3', '3', False),
                        ('-2', '-2', False)):
        pre = 'subscript' if bad else 'control'
        out.append(_case(f'{pre}/DIM/lower-upper/{lo},{hi}', 'subscript' if bad else 'none', 'DIM',
                         TRAP(SUBS) if bad else OK, setup=[f'n% = {lo}', f'k% = {hi}'],
                         stmt=['DIM d%(n% TO k%)']))
        out.append(_case(f'{pre}/DIM/lower-upper-2nd/{lo},{hi}', 'subscript' if bad else 'none',
                         'DIM', TRAP(SUBS) if bad else OK, setup=[f'n% = {lo}', f'k% = {hi}'],
                         stmt=['DIM d%(2, n% TO k%)'], tier='t'))
    out.append(_case('subscript/DIM/negative-upper', 'subscript', 'DIM', TRAP(SUBS),
                     setup=['n% = -1'], stmt=['DIM d%(n%)']))
    out.append(_case('overflow/DIM/bound-conversion', 'overflow', 'DIM', TRAP(OVF, SUBS),
                     setup=['n# = 1d300'], stmt=['DIM d%(n#)']))
    # LBOUND / UBOUND with a bad dimension
    for f in ('LBOUND', 'UBOUND'):
        for dn, setup, rank in (('1dim', ['DIM a%(5)'], 1), ('2dim', ['DIM a%(2, 3)'], 2),
                                ('dynamic', ['n% = 3', 'DIM a%(n%)'], 1)):
            for d in sorted({0, -1, rank + 1, 1, rank}):
                bad = d < 1 or d > rank
                pre = 'subscript' if bad else 'control'
                out.append(_case(f'{pre}/{f}/{dn}/dimension-{d}/variable',
                                 'subscript' if bad else 'none', f,
                                 TRAP(SUBS) if bad else OK,
                                 setup=setup + [f'k% = {d}'], expr=f'{f}(a%, k%)'))
                out.append(_case(f'{pre}/{f}/{dn}/dimension-{d}/literal',
                                 'subscript' if bad else 'none', f,
                                 TRAP(SUBS) if bad else OK,
                                 setup=setup, expr=f'{f}(a%, {d})', tier='t'))
    return out


def ifc_cases():
    out = []
    S = ['s$ = "hello"', 'e$ = ""']
    # (construct, expression, rtype, [(var, value)], bad?)
    rows = [
        ('CHR$', 'CHR$(k%)', 's', [('256', 1), ('-1', 1), ('32767', 1), ('255', 0), ('0', 0)]),
        ('ASC', 'ASC(e$)', 'n', [('0', 1)]),
        ('ASC', 'ASC(s$)', 'n', [('0', 0)]),
        ('MID$', 'MID$(s$, k%)', 's', [('0', 1), ('-1', 1), ('1', 0), ('6', 0), ('32767', 0)]),
        ('MID$', 'MID$(s$, k%, 1)', 's', [('0', 1), ('-5', 1), ('5', 0)]),
        ('MID$', 'MID$(s$, 1, k%)', 's', [('-1', 1), ('0', 0), ('32767', 0)]),
        ('MID$', 'MID$(e$, k%)', 's', [('0', 1), ('1', 0)]),
        ('LEFT$', 'LEFT$(s$, k%)', 's', [('-1', 1), ('-32768', 1), ('0', 0), ('32767', 0)]),
        ('RIGHT$', 'RIGHT$(s$, k%)', 's', [('-1', 1), ('-32768', 1), ('0', 0), ('32767', 0)]),
        ('SPACE$', 'SPACE$(k%)', 's', [('-1', 1), ('-32768', 1), ('0', 0), ('300', 0)]),
        ('STRING$', 'STRING$(k%, "x")', 's', [('-1', 1), ('0', 0), ('300', 0)]),
        ('STRING$', 'STRING$(k%, 65)', 's', [('-1', 1), ('0', 0)]),
        ('STRING$', 'STRING$(3, e$)', 's', [('0', 1)]),
        ('STRING$', 'STRING$(3, k%)', 's', [('256', 1), ('-1', 1), ('32767', 1), ('255', 0),
                                             ('0', 0)]),
        ('INSTR', 'INSTR(k%, s$, "l")', 'n', [('0', 1), ('-1', 1), ('1', 0), ('6', 0),
                                               ('32767', 0)]),
        ('INSTR', 'INSTR(k%, s$, e$)', 'n', [('0', 1), ('1', 0)]),
        ('INSTR', 'INSTR(s$, e$)', 'n', [('0', 0)]),
        ('INSTR', 'INSTR(e$, s$)', 'n', [('0', 0)]),
        ('LEN', 'LEN(e$)', 'n', [('0', 0)]),
        ('LCASE$', 'LCASE$(e$)', 's', [('0', 0)]),
        ('UCASE$', 'UCASE$(s$)', 's', [('0', 0)]),
        ('LTRIM$', 'LTRIM$(e$)', 's', [('0', 0)]),
        ('RTRIM$', 'RTRIM$(e$)', 's', [('0', 0)]),
        ('STR$', 'STR$(k%)', 's', [('-32768', 0)]),
        ('ABS', 'ABS(k%)', 'n', [('-32767', 0)]),
        ('ERR', 'ERR', 'n', [('0', 0)]),
    ]
    for f, e, rt, vals in rows:
        for v, bad in vals:
            pre = 'ifc' if bad else 'control'
            out.append(_case(f'{pre}/{f}/{e}/{v}', 'ifc' if bad else 'none', f,
                             TRAP(IFC) if bad else OK, setup=S + [f'k% = {v}'], expr=e, rtype=rt))
    # the same with literal arguments (thorough; the compiler may evaluate or
    # reject them, which is not C07's business: non-accepted programs are skipped)
    for f, e, rt in (('CHR$', 'CHR$(256)', 's'), ('ASC', 'ASC("")', 'n'),
                     ('MID$', 'MID$("abc", 0)', 's'), ('LEFT$', 'LEFT$("abc", -1)', 's'),
                     ('RIGHT$', 'RIGHT$("abc", -1)', 's'), ('SPACE$', 'SPACE$(-1)', 's'),
                     ('STRING$', 'STRING$(-1, "a")', 's'), ('STRING$', 'STRING$(3, "")', 's'),
                     ('STRING$', 'STRING$(3, 256)', 's'), ('INSTR', 'INSTR(0, "a", "b")', 'n')):
        out.append(_case(f'ifc/{f}/{e}/literal', 'ifc', f, TRAP(IFC), expr=e, rtype=rt, tier='t'))
    # VAL never fails (REFSEM 6); an out-of-range numeral may report Overflow
    vals = ['', ' ', 'abc', '12', ' 12 ', '-', '+', '.', '-.', '1e', '1e+', '1e5', '1d5', '1e400',
            '1d400', '-1e400', '99999999999999999999', '9' * 60, '9' * 400, '0.' + '0' * 50 + '1',
            '1.2.3', '1,2', '12abc', '1 2', '&H', '&H1F', '&HFFFFFFFFFF', '&O17', '&O9', '&',
            '1%', '99999%', '1&', '9999999999&', '1!', '1#', '1e5#', '1e5%', '1e-400', '--1',
            '+-1', '1e1e1', 'e5', '.5', '5.', '1__0', '1_0', 'inf', 'nan', '0x10', '1e 5', '\t1']
    for s in vals:
        exp = MAYBE(OVF) if ('400' in s and 'e-' not in s) or len(s) >= 400 else OK
        out.append(_case(f'control/VAL/{s!r}', 'none', 'VAL', exp,
                         setup=[f's$ = "{s}"'], expr='VAL(s$)'))
    # printing extreme values: the number formatter is total
    for t, v in (('!', '1e38'), ('!', '1e-38'), ('!', '-1.5e-45'), ('#', '1d308'),
                 ('#', '4.9d-324'), ('#', '-1d-310'), ('!', '16777216'), ('#', '1d15'),
                 ('#', '1d16'), ('!', '0.1'), ('&', '-2147483648'), ('%', '-32768')):
        out.append(_case(f'control/number-text/{TNAME[t]}/{v}', 'none', 'STR$', OK,
                         setup=[f'a{t} = {v}'], expr=f'STR$(a{t})', rtype='s', operands=t))
    return out


def data_cases():
    out = []
    D = 'DATA'

    def c(cid, expect, data, stmt, cause='data', tier='q'):
        out.append(_case(cid, cause if expect != OK else 'none', 'READ', expect, data=data,
                         stmt=stmt, tier=tier))
    c('data/no-DATA-at-all', TRAP(DEV), [], ['READ a%'])
    c('data/past-last-item/same-READ', TRAP(DEV), [f'{D} 1'], ['READ a%, b%'])
    c('data/past-last-item/third-READ', TRAP(DEV), [f'{D} 1, 2'], ['READ a%', 'READ b%', 'READ c%'])
    c('data/past-last-item/two-DATA-lines', TRAP(DEV), [f'{D} 1', f'{D} 2'],
      ['READ a%, b%', 'READ c%'])
    c('data/past-last-item/after-RESTORE', TRAP(DEV), [f'{D} 1'],
      ['READ a%', 'RESTORE', 'READ b%', 'READ c%'])
    c('data/past-last-item/string', TRAP(DEV), [f'{D} x'], ['READ a$, b$'])
    c('data/past-last-item/in-loop', TRAP(DEV), [f'{D} 1, 2, 3'],
      ['FOR i% = 1 TO 4', 'READ a%', 'NEXT'])
    for t in TYPES:
        c(f'data/text-into-numeric/{TNAME[t]}', TRAP(DEV), [f'{D} abc'], [f'READ a{t}'])
        c(f'data/quoted-text-into-numeric/{TNAME[t]}', TRAP(DEV), [f'{D} "12x"'], [f'READ a{t}'],
          tier='t')
        c(f'control/READ/{TNAME[t]}', OK, [f'{D} 12'], [f'READ a{t}'])
        c(f'control/READ/empty-item/{TNAME[t]}', OK, [f'{D} ,'], [f'READ a{t}'])
    c('control/READ/string', OK, [f'{D} abc, "d,e"'], ['READ a$, b$'])
    c('control/READ/exactly-all', OK, [f'{D} 1, 2'], ['READ a%, b%'])
    c('overflow/READ/INTEGER', TRAP(OVF), [f'{D} 40000'], ['READ a%'], cause='overflow')
    c('overflow/READ/LONG', TRAP(OVF), [f'{D} 3000000000'], ['READ a&'], cause='overflow')
    c('overflow/READ/SINGLE', TRAP(OVF), [f'{D} 1e40'], ['READ a!'], cause='overflow')
    c('overflow/READ/DOUBLE', MAYBE(OVF), [f'{D} 1e999'], ['READ a#'], cause='overflow')
    # text forms whose acceptance is C15's business: totality only
    for txt in ('1.5', '1D5', '&H10', '1_0', '1e5', '1 2', '-', '+5', 'inf', 'nan', '0x1f',
                '1e', '.'):
        for t in ('%', '#'):
            c(f'unspecified/READ/{txt}/{TNAME[t]}', ANY, [f'{D} {txt}'], [f'READ a{t}'],
              cause='unspecified', tier='q' if t == '%' else 't')
    return out


# statements outside the reference subset -----------------------------------

INT_POOL_Q = ['-1', '0', '1', '255', '256', '32767']
INT_POOL_T = ['-32768', '-2', '-1', '0', '1', '2', '24', '25', '26', '79', '80', '81', '255',
              '256', '32767']
WIDE_POOL = [('&', '40000'), ('&', '65535'), ('&', '65536'), ('&', '-40000'),
             ('&', '2147483647'), ('!', '0.5'), ('!', '1e10'), ('#', '-1d300')]
STR_POOL = ['', 'x', 'file.bin', 'c:\\x', 'a' * 300, 'l8 c d e', 'zz!!', '\\']


def _patterns(n, trailing_ok=False):
    """presence patterns of n optional comma separated arguments, last present"""
    for bits in itertools.product((0, 1), repeat=n):
        if not any(bits):
            continue
        last = max(i for i, b in enumerate(bits) if b)
        yield bits[:last + 1]


def outside_cases(tier):
    out = []
    pool = INT_POOL_Q if tier == 'quick' else INT_POOL_T

    def add(cid, construct, setup, stmt, t='q'):
        out.append(_case('outside/' + cid, 'outside', construct, ANY, setup=setup, stmt=stmt,
                         tier=t))

    def argforms(name, head, nargs, sep=', '):
        # every presence pattern; all present slots hold the same value v
        for bits in _patterns(nargs):
            pat = ''.join('x' if b else '-' for b in bits)
            for v in pool:
                args = sep.join('v%' if b else '' for b in bits)
                add(f'{name}/{pat}/all={v}', name, [f'v% = {v}'], [f'{head} {args}'])
            # one slot at a time takes a wide value, the others 1
            for i, b in enumerate(bits):
                if not b:
                    continue
                for wt, wv in WIDE_POOL:
                    if tier == 'quick' and (wt, wv) not in (('&', '40000'), ('!', '1e10')):
                        continue
                    args = sep.join(('w' + wt if j == i else 'u%') if bb else ''
                                    for j, bb in enumerate(bits))
                    add(f'{name}/{pat}/slot{i}={wv}{wt}', name, ['u% = 1', f'w{wt} = {wv}'],
                        [f'{head} {args}'], t='q' if len(bits) <= 2 or tier != 'quick' else 't')
            if tier != 'quick' and len(bits) >= 2:
                # pairs of slots over the limit values
                small = ['-1', '0', '1', '256', '32767']
                present = [i for i, b in enumerate(bits) if b]
                for i, j in itertools.combinations(present, 2):
                    for vi, vj in itertools.product(small, small):
                        if vi == vj:
                            continue
                        names = {i: 'p%', j: 'q%'}
                        args = sep.join(names.get(k, 'u%') if bb else ''
                                        for k, bb in enumerate(bits))
                        add(f'{name}/{pat}/slots{i}{j}={vi},{vj}', name,
                            ['u% = 1', f'p% = {vi}', f'q% = {vj}'], [f'{head} {args}'])

    argforms('LOCATE', 'LOCATE', 5)
    add('LOCATE/none', 'LOCATE', [], ['LOCATE'])
    argforms('COLOR', 'COLOR', 3)
    argforms('SCREEN', 'SCREEN', 4)
    argforms('WIDTH', 'WIDTH', 2)
    add('VIEW PRINT/none', 'VIEW PRINT', [], ['VIEW PRINT'])
    for a, b in itertools.product(pool, pool):
        add(f'VIEW PRINT/{a} TO {b}', 'VIEW PRINT', [f'p% = {a}', f'q% = {b}'],
            ['VIEW PRINT p% TO q%'])
    for wt, wv in WIDE_POOL:
        add(f'VIEW PRINT/wide-top/{wv}{wt}', 'VIEW PRINT', [f'w{wt} = {wv}'],
            [f'VIEW PRINT w{wt} TO 5'])
        add(f'VIEW PRINT/wide-bottom/{wv}{wt}', 'VIEW PRINT', [f'w{wt} = {wv}'],
            [f'VIEW PRINT 1 TO w{wt}'])
    # SOUND frequency, duration
    sp = ['-1', '0', '36', '37', '32767'] if tier == 'quick' else pool + ['36', '37']
    for a, b in itertools.product(sp, sp):
        add(f'SOUND/{a},{b}', 'SOUND', [f'p% = {a}', f'q% = {b}'], ['SOUND p%, q%'])
    for wt, wv in WIDE_POOL:
        add(f'SOUND/wide-frequency/{wv}{wt}', 'SOUND', [f'w{wt} = {wv}'], [f'SOUND w{wt}, 1'])
        add(f'SOUND/wide-duration/{wv}{wt}', 'SOUND', [f'w{wt} = {wv}'], [f'SOUND 440, w{wt}'])
    # POKE / PEEK / DEF SEG
    add('DEF SEG/none', 'DEF SEG', [], ['DEF SEG'])
    for v in pool:
        add(f'DEF SEG/{v}', 'DEF SEG', [f'v% = {v}'], ['DEF SEG = v%'])
        add(f'PEEK/{v}', 'PEEK', [f'v% = {v}'], ['r% = PEEK(v%)'])
        add(f'POKE/offset={v}', 'POKE', [f'v% = {v}'], ['POKE v%, 1'])
        add(f'POKE/value={v}', 'POKE', [f'v% = {v}'], ['POKE 1, v%'])
        add(f'DEF SEG+POKE+PEEK/{v}', 'POKE', [f'v% = {v}'],
            ['DEF SEG = 0', 'POKE 1047, v%', 'r% = PEEK(1047)', 'DEF SEG'], t='t')
    for wt, wv in WIDE_POOL:
        add(f'DEF SEG/wide/{wv}{wt}', 'DEF SEG', [f'w{wt} = {wv}'], [f'DEF SEG = w{wt}'])
        add(f'PEEK/wide/{wv}{wt}', 'PEEK', [f'w{wt} = {wv}'], [f'r% = PEEK(w{wt})'])
        add(f'POKE/wide-offset/{wv}{wt}', 'POKE', [f'w{wt} = {wv}'], [f'POKE w{wt}, 1'])
        add(f'POKE/wide-value/{wv}{wt}', 'POKE', [f'w{wt} = {wv}'], [f'POKE 1, w{wt}'])
    # strings: PLAY, KILL, BLOAD, BSAVE
    for s in STR_POOL:
        add(f'PLAY/{s[:12]!r}{len(s)}', 'PLAY', [f's$ = "{s}"'], ['PLAY s$'])
        add(f'KILL/{s[:12]!r}{len(s)}', 'KILL', [f's$ = "{s}"'], ['KILL s$'])
        add(f'BLOAD/{s[:12]!r}{len(s)}', 'BLOAD', [f's$ = "{s}"'], ['BLOAD s$, 0'])
        add(f'BSAVE/{s[:12]!r}{len(s)}', 'BSAVE', [f's$ = "{s}"'], ['BSAVE s$, 0, 10'])
    # names the operating system interface refuses (embedded NUL)
    for tag, e in (('NUL', 'CHR$(0)'), ('aNULb', '"a" + CHR$(0) + "b"')):
        add(f'KILL/name-{tag}', 'KILL', [f's$ = {e}'], ['KILL s$'])
        add(f'BLOAD/screen/name-{tag}', 'BLOAD', [f's$ = {e}'], ['DEF SEG = &HB800', 'BLOAD s$, 0'])
        add(f'BSAVE/screen/name-{tag}', 'BSAVE', [f's$ = {e}'], ['DEF SEG = &HB800', 'BSAVE s$, 0, 10'])
        add(f'PLAY/name-{tag}', 'PLAY', [f's$ = {e}'], ['PLAY s$'])
    for v in pool:
        add(f'BLOAD/offset={v}', 'BLOAD', [f'v% = {v}'], ['BLOAD "f", v%'])
        add(f'BSAVE/offset={v}', 'BSAVE', [f'v% = {v}'], ['BSAVE "f", v%, 1'])
        add(f'BSAVE/length={v}', 'BSAVE', [f'v% = {v}'], ['BSAVE "f", 0, v%'])
    for wt, wv in WIDE_POOL:
        add(f'BLOAD/wide-offset/{wv}{wt}', 'BLOAD', [f'w{wt} = {wv}'], [f'BLOAD "f", w{wt}'])
        add(f'BSAVE/wide-length/{wv}{wt}', 'BSAVE', [f'w{wt} = {wv}'], [f'BSAVE "f", 0, w{wt}'])
    # the screen segment is the one the implementation's own peripherals serve
    for s in STR_POOL:
        add(f'BLOAD/screen/{s[:12]!r}{len(s)}', 'BLOAD', [f's$ = "{s}"'],
            ['DEF SEG = &HB800', 'BLOAD s$, 0'])
        add(f'BSAVE/screen/{s[:12]!r}{len(s)}', 'BSAVE', [f's$ = "{s}"'],
            ['DEF SEG = &HB800', 'BSAVE s$, 0, 10'])
    for v in pool:
        add(f'POKE/screen/offset={v}', 'POKE', [f'v% = {v}'], ['DEF SEG = &HB800', 'POKE v%, 65'])
        add(f'POKE/screen/value={v}', 'POKE', [f'v% = {v}'], ['DEF SEG = &HB800', 'POKE 0, v%'])
        add(f'PEEK/screen/{v}', 'PEEK', [f'v% = {v}'], ['DEF SEG = &HB800', 'r% = PEEK(v%)'])
        add(f'PEEK/segment0/{v}', 'PEEK', [f'v% = {v}'], ['DEF SEG = 0', 'r% = PEEK(v%)'], t='t')
    add('PEEK/keyboard-flags', 'PEEK', [], ['DEF SEG = 0', 'POKE 1047, 0', 'r% = PEEK(1047)'])
    # the rest of the device statements
    add('CLS', 'CLS', [], ['CLS'])
    add('BEEP', 'BEEP', [], ['BEEP'])
    for wt, wv in WIDE_POOL + [('%', v) for v in pool]:
        add(f'RANDOMIZE/{wv}{wt}', 'RANDOMIZE', [f'w{wt} = {wv}'], [f'RANDOMIZE w{wt}'])
        add(f'RND/{wv}{wt}', 'RND', [f'w{wt} = {wv}'], [f'r! = RND(w{wt})'])
    return out


# PRINT USING: format strings are data of one driver program ------------------

USING_ALPHA_Q = ['#', '.', ',', '+', '-', '!', '&', '_', 'a']
USING_ALPHA_T = USING_ALPHA_Q + ['$', '*', '^', '\\', ' ', '%']
USING_VALUES = [
    ('number', 'PRINT USING f$; v#', ['v# = -12.5']),
    ('string', 'PRINT USING f$; v$', ['v$ = "xy"']),
    ('empty-string', 'PRINT USING f$; v$', ['v$ = ""']),
    ('number-string', 'PRINT USING f$; v#; v$', ['v# = 1234567.891', 'v$ = "q"']),
    ('string-number', 'PRINT USING f$; v$, v#', ['v$ = "q"', 'v# = 0']),
    ('big-number', 'PRINT USING f$; v#;', ['v# = 1d300']),
    ('integer', 'PRINT USING f$; v%', ['v% = -32768']),
    ('no-values', 'PRINT USING f$;', []),
]


def using_driver(vname):
    for name, stmt, setup in USING_VALUES:
        if name == vname:
            return setup, stmt
    raise KeyError(vname)


def using_source(vname, arming):
    """the format string arrives through INKEY$ (any text, no parsing)"""
    setup, stmt = using_driver(vname)
    lines = arm_head(arming)
    lines += setup
    lines += ['f$ = INKEY$', stmt, 'PRINT "after"', 'END']
    lines += handler_tail(arming)
    return '\n'.join(lines) + '\n'


USING_VALUE_KINDS = {
    'number': ['num'], 'string': ['str'], 'empty-string': ['empty'],
    'number-string': ['num', 'str'], 'string-number': ['str', 'num'],
    'big-number': ['num'], 'integer': ['num'], 'no-values': [],
}


def using_fields(fmt):
    """the harness's own reading of a format string: list of field kinds
    ('num', '&', '!') and whether it ends in a dangling escape character.
    A numeric field is a run of # , . with at least one #, with an optional
    sign in front or (if none in front) behind."""
    fields = []
    i = 0
    n = len(fmt)
    dangling = False
    while i < n:
        c = fmt[i]
        if c in '#+-':
            j = i
            lead = False
            if fmt[j] in '+-':
                lead = True
                j += 1
            sharps = 0
            dot = False
            while j < n:
                if fmt[j] == '#':
                    sharps += 1
                elif fmt[j] == ',':
                    if dot:
                        break       # a comma after the decimal point ends the field
                elif fmt[j] == '.' and not dot:
                    dot = True
                elif fmt[j] in '+-' and not lead:
                    j += 1
                    break
                else:
                    break
                j += 1
            if sharps:
                fields.append('num')
                i = j
                continue
        if c in '&!':
            fields.append(c)
            i += 1
        elif c == '_':
            if i + 1 >= n:
                dangling = True
            i += 2
        else:
            i += 1
    return fields, dangling


def using_demand(fmt, vname):
    """input-side class of a (format, value list) pair"""
    fields, dangling = using_fields(fmt)
    if dangling:
        return 'dangling-escape'
    vals = USING_VALUE_KINDS[vname]
    if not vals:
        return 'no-values'
    for f, v in zip(fields, vals):
        if f == 'num' and v != 'num':
            return 'string-into-numeric-field'
        if f != 'num' and v == 'num':
            return 'number-into-string-field'
        if f == '!' and v == 'empty':
            return 'empty-string-into-!-field'
    if not fields:
        return 'no-field'
    if len(fields) > len(vals):
        return 'more-fields-than-values'
    if len(fields) < len(vals):
        return 'more-values-than-fields'
    return 'match'


def using_formats(tier):
    alpha = USING_ALPHA_Q if tier == 'quick' else USING_ALPHA_T
    nmax = 3 if tier == 'quick' else 4
    out = ['']
    for n in range(1, nmax + 1):
        if n == 4:
            # length 4 over the quick alphabet only
            out.extend(''.join(t) for t in itertools.product(USING_ALPHA_Q, repeat=n))
        else:
            out.extend(''.join(t) for t in itertools.product(alpha, repeat=n))
    return out, alpha, nmax


# ---------------------------------------------------------------------------
# program assembly for family (a)

CONTEXTS_N = ['assign', 'print', 'if', 'arg', 'index', 'nested', 'operand']
CONTEXTS_S = ['assign', 'print', 'if', 'arg', 'nested', 'operand']
SITES = ['main', 'sub', 'function', 'gosub', 'for', 'if', 'while']


def context_stmt(case, ctx):
    e = case['expr']
    if case['rtype'] == 'n':
        return {
            'assign': ([], [f'r# = {e}'], []),
            'print': ([], [f'PRINT {e}'], []),
            'if': ([], [f'IF {e} THEN PRINT "t"'], []),
            'arg': ([], [f'CALL xn({e})'], ['SUB xn (p#)', 'PRINT "x"', 'END SUB']),
            'index': (['DIM xa%(3)'], [f'xa%({e}) = 1'], []),
            'nested': ([], [f'PRINT 1; "a", {e}; 2'], []),
            'operand': ([], [f'r# = 1 + ({e}) * 2'], []),
        }[ctx]
    return {
        'assign': ([], [f'r$ = {e}'], []),
        'print': ([], [f'PRINT {e}'], []),
        'if': ([], [f'IF {e} = "" THEN PRINT "t"'], []),
        'arg': ([], [f'CALL xs({e})'], ['SUB xs (p$)', 'PRINT "x"', 'END SUB']),
        'nested': ([], [f'PRINT 1; "a", {e}; 2'], []),
        'operand': ([], [f'r$ = "<" + {e} + ">"'], []),
    }[ctx]


def build_source(case, arming, ctx='assign', site='main'):
    """-> source text of one catalogue program"""
    pre, stmt, tail = ([], case['stmt'], []) if case['stmt'] is not None else context_stmt(case, ctx)
    body = pre + case['setup'] + stmt
    lines = arm_head(arming)
    lines += case['types']
    lines += case['data']
    after = []
    if site == 'main':
        lines += body
    elif site == 'sub':
        lines.append('CALL site1')
        after = ['SUB site1'] + body + ['PRINT "in"', 'END SUB']
    elif site == 'function':
        lines.append('PRINT 10 + site2%(1)')
        after = ['FUNCTION site2% (z%)'] + body + ['site2% = 1', 'END FUNCTION']
    elif site == 'gosub':
        lines.append('GOSUB g1')
    elif site == 'for':
        lines += ['FOR z% = 1 TO 2'] + body + ['NEXT']
    elif site == 'if':
        lines += ['z% = 1', 'IF z% = 1 THEN'] + body + ['ELSE', 'PRINT "e"', 'END IF']
    elif site == 'while':
        lines += ['z% = 0', 'WHILE z% < 2', 'z% = z% + 1'] + body + ['WEND']
    else:
        raise KeyError(site)
    lines += ['PRINT "after"', 'END']
    if site == 'gosub':
        lines += ['g1:'] + body + ['PRINT "in"', 'RETURN']
    lines += handler_tail(arming)
    lines += after + case['tail'] + tail
    return '\n'.join(lines) + '\n'


def error_cases(tier):
    cs = (div_cases() + overflow_arith_cases() + nonfinite_cases() + overflow_conv_cases()
          + subscript_cases()
          + ifc_cases() + data_cases() + outside_cases(tier))
    if tier == 'quick':
        cs = [c for c in cs if c['tier'] == 'q']
    ids = set()
    for c in cs:
        assert c['id'] not in ids, c['id']
        ids.add(c['id'])
    return cs


def variants(case, tier):
    """(context, site) pairs run for one case"""
    out = []
    if case['stmt'] is not None:
        out.append(('-', 'main'))
        if case['cause'] != 'outside':
            sites = ['sub', 'for'] if tier == 'quick' else SITES[1:]
            if case['construct'] == 'READ':
                # the DATA pool is consumed once: no site that repeats the body
                sites = [x for x in (['sub', 'if'] if tier == 'quick' else SITES[1:])
                         if x not in ('for', 'while')]
            # DATA and TYPE stay at module level; everything else moves
            out.extend(('-', s) for s in sites)
        return out
    ctxs = CONTEXTS_N if case['rtype'] == 'n' else CONTEXTS_S
    if case['expect'] == OK:
        # a control completes only where its value is not constrained further:
        # as a subscript (xa%(0..3)), as an operand (v * 2 in the operand's own
        # type) or as a condition (narrowed to INTEGER by qbee - C01's finding)
        # a limit value fails for a reason that is not the case's subject
        ctxs = [c for c in ctxs if c not in ('index', 'operand', 'if')]
    if tier == 'quick':
        if case['cause'] == 'none':
            return [('assign', 'main'), ('print', 'main')]
        return [('assign', 'main'), ('print', 'main'), ('nested', 'main'), ('operand', 'sub'),
                ('arg', 'function')]
    for c in ctxs:
        out.append((c, 'main'))
    for s in SITES[1:]:
        out.append(('assign', s))
        out.append(('nested', s))
    return out


# ---------------------------------------------------------------------------
# (b) device-using programs

def device_programs():
    """name, source body lines, input line"""
    P = []

    def p(name, lines, inp='0'):
        P.append({'name': name, 'lines': lines, 'inp': inp})
    p('print-items', ['PRINT "a"; 1, 2.5', 'PRINT', 'PRINT "b";', 'PRINT "c"'])
    p('print-loop', ['FOR i% = 1 TO 3', 'PRINT i%;', 'NEXT', 'PRINT'])
    p('print-using', ['PRINT USING "##.# &"; 3.14; "x"', 'PRINT USING "+###"; 5'])
    p('input-integer', ['INPUT a%', 'PRINT a% * 2'], '21')
    p('input-prompt-string', ['INPUT "name"; s$', 'PRINT "hi "; s$'], 'bob')
    p('input-two', ['INPUT "xy", a%, b#', 'PRINT a% + b#'], '3, 4.5')
    p('input-sameline', ['INPUT ; a!', 'PRINT a!', 'INPUT "q", s$', 'PRINT s$'], '7')
    p('input-loop', ['FOR i% = 1 TO 3', 'INPUT v&', 't& = t& + v&', 'NEXT', 'PRINT t&'], '100000')
    p('input-into-array', ['DIM a%(2)', 'FOR i% = 0 TO 2', 'INPUT a%(i%)', 'NEXT', 'PRINT a%(1)'],
      '5')
    p('inkey', ['k$ = INKEY$', 'PRINT LEN(k$)', 'IF k$ = "" THEN PRINT "none"'])
    p('inkey-asc', ['k$ = INKEY$', 'PRINT ASC(k$ + "z")', 'PRINT LEFT$(k$, 1)'])
    p('rnd-dice', ['d% = INT(RND * 6) + 1', 'PRINT d%'])
    p('rnd-args', ['a! = RND(1)', 'b! = RND(0)', 'c! = RND(-2)', 'PRINT a!; b!; c!'])
    p('rnd-array-index', ['DIM a%(9)', 'a%(INT(RND * 10)) = 1', 'PRINT "ok"'])
    p('rnd-loop-sum', ['FOR i% = 1 TO 3', 's! = s! + RND', 'NEXT', 'PRINT s!'])
    p('randomize-timer', ['RANDOMIZE TIMER', 'PRINT RND'])
    p('randomize-const', ['RANDOMIZE 42', 'x! = RND', 'PRINT CINT(x! * 100)'])
    p('timer-elapsed', ['t0! = TIMER', 't1! = TIMER', 'PRINT t1! - t0!', 'PRINT CLNG(t1!)'])
    p('timer-integer', ['t% = TIMER / 100', 'PRINT t%'])
    p('timer-string', ['PRINT STR$(TIMER)', 'PRINT INT(TIMER)'])
    p('peek-poke', ['DEF SEG = 0', 'POKE 1047, 64', 'v% = PEEK(1047)', 'DEF SEG', 'PRINT v%'])
    p('peek-chr', ['v% = PEEK(100)', 'PRINT CHR$(v%)', 'PRINT v% * 200'])
    p('peek-index', ['DIM a%(10)', 'a%(PEEK(5)) = 1', 'PRINT "ok"'])
    p('screen-text', ['SCREEN 0', 'WIDTH 80, 25', 'COLOR 7, 1', 'CLS', 'LOCATE 2, 3', 'PRINT "x"'])
    p('locate-cursor', ['LOCATE , , 1, 6, 7', 'LOCATE 5', 'VIEW PRINT 2 TO 20', 'VIEW PRINT',
                        'PRINT "y"'])
    p('sound-play', ['BEEP', 'SOUND 440, 2', 'PLAY "cde"', 'PRINT "done"'])
    p('files', ['DEF SEG = 47104', 'BSAVE "scr.bin", 0, 100', 'BLOAD "scr.bin", 0',
                'KILL "scr.bin"', 'PRINT "done"'])
    p('sub-prints', ['CALL show(3)', 'PRINT "back"', 'END', 'SUB show (n%)', 'IF n% > 0 THEN',
                     'PRINT n%', 'CALL show(n% - 1)', 'END IF', 'END SUB'])
    p('function-input', ['PRINT ask% + 1', 'END', 'FUNCTION ask%', 'INPUT v%', 'ask% = v%',
                         'END FUNCTION'], '9')
    p('mixed', ['CLS', 'INPUT "n"; n%', 'FOR i% = 1 TO n%', 'PRINT INT(RND * 10); TIMER > 0',
                'NEXT', 'BEEP'], '2')
    p('data-and-print', ['DATA 1, 2', 'READ a%, b%', 'PRINT a%; b%', 'k$ = INKEY$', 'PRINT k$'])
    return P


def device_source(prog, arming):
    lines = arm_head(arming)
    body = list(prog['lines'])
    # programs with procedures already contain END
    if 'END' in body:
        k = body.index('END')
        main, rest = body[:k], body[k + 1:]
    else:
        main, rest = body, []
    lines += main + ['PRINT "after"', 'END']
    lines += handler_tail(arming)
    lines += rest
    return '\n'.join(lines) + '\n'


# ---------------------------------------------------------------------------
# (c) interrupt-schedule programs (each <= 600 ticks)

def interrupt_programs():
    P = []

    def p(name, lines, inp=(), armed=False):
        P.append({'name': name, 'src': '\n'.join(lines) + '\n', 'inputs': list(inp),
                  'armed': armed})
    p('empty', [''])
    p('end-only', ['END'])
    p('assign-print', ['a% = 5', 'b& = a% * 1000', 'PRINT a%; b&'])
    p('for-sum', ['FOR i% = 1 TO 10', 's% = s% + i%', 'NEXT', 'PRINT s%'])
    p('for-step-down', ['FOR i% = 9 TO 1 STEP -2', 'PRINT i%;', 'NEXT'])
    p('nested-for', ['FOR i% = 1 TO 3', 'FOR j% = 1 TO 3', 'c% = c% + i% * j%', 'NEXT', 'NEXT',
                     'PRINT c%'])
    p('while', ['n% = 20', 'WHILE n% > 1', 'IF n% MOD 2 = 0 THEN n% = n% \\ 2 ELSE n% = 3 * n% + 1',
                'WEND', 'PRINT n%'])
    p('do-loops', ['DO', 'k% = k% + 1', 'LOOP UNTIL k% = 4', 'DO WHILE k% > 0', 'k% = k% - 1',
                   'LOOP', 'PRINT k%'])
    p('exit-for', ['FOR i% = 1 TO 100', 'IF i% = 5 THEN EXIT FOR', 'NEXT', 'PRINT i%'])
    p('if-block', ['x% = 3', 'IF x% = 1 THEN', 'PRINT "one"', 'ELSEIF x% = 3 THEN', 'PRINT "three"',
                   'ELSE', 'PRINT "other"', 'END IF'])
    p('select', ['FOR i% = 1 TO 4', 'SELECT CASE i%', 'CASE 1', 'PRINT "a"', 'CASE 2 TO 3',
                 'PRINT "b"', 'CASE ELSE', 'PRINT "c"', 'END SELECT', 'NEXT'])
    p('gosub', ['GOSUB r1', 'GOSUB r1', 'PRINT c%', 'END', 'r1:', 'c% = c% + 1', 'RETURN'])
    p('goto', ['i% = 0', 'top:', 'i% = i% + 1', 'IF i% < 5 THEN GOTO top', 'PRINT i%'])
    p('sub-call', ['CALL add(2, 3)', 'PRINT "ok"', 'END', 'SUB add (a%, b%)', 'PRINT a% + b%',
                   'END SUB'])
    p('sub-by-reference', ['v% = 1', 'CALL inc(v%)', 'CALL inc(v%)', 'PRINT v%', 'END',
                           'SUB inc (n%)', 'n% = n% + 1', 'END SUB'])
    p('function', ['PRINT sq&(7) + sq&(2)', 'END', 'FUNCTION sq& (n&)', 'sq& = n& * n&',
                   'END FUNCTION'])
    p('recursion', ['PRINT fact&(6)', 'END', 'FUNCTION fact& (n&)', 'IF n& <= 1 THEN', 'fact& = 1',
                    'ELSE', 'fact& = n& * fact&(n& - 1)', 'END IF', 'END FUNCTION'])
    p('recursive-sub', ['CALL down(4)', 'END', 'SUB down (n%)', 'IF n% > 0 THEN', 'PRINT n%;',
                        'CALL down(n% - 1)', 'END IF', 'END SUB'])
    p('static-counter', ['CALL tick', 'CALL tick', 'CALL tick', 'END', 'SUB tick', 'STATIC c%',
                         'c% = c% + 1', 'PRINT c%', 'END SUB'])
    p('shared', ['DIM SHARED g%', 'g% = 4', 'CALL show', 'END', 'SUB show', 'PRINT g% * 2',
                 'END SUB'])
    p('array-fill', ['DIM a%(8)', 'FOR i% = 0 TO 8', 'a%(i%) = i% * i%', 'NEXT', 'PRINT a%(8)'])
    p('array-2dim', ['DIM m%(2, 2)', 'FOR i% = 0 TO 2', 'FOR j% = 0 TO 2', 'm%(i%, j%) = i% + j%',
                     'NEXT', 'NEXT', 'PRINT m%(2, 2)'])
    p('dynamic-array', ['n% = 6', 'DIM d#(1 TO n%)', 'FOR i% = 1 TO n%', 'd#(i%) = i% / 2', 'NEXT',
                        'PRINT d#(n%)'])
    p('array-parameter', ['DIM a%(4)', 'a%(2) = 7', 'CALL show(a%())', 'END', 'SUB show (p%())',
                          'PRINT p%(2); UBOUND(p%)', 'END SUB'])
    p('records', ['TYPE pt', 'x AS INTEGER', 'y AS INTEGER', 'END TYPE', 'DIM p AS pt',
                  'DIM q(2) AS pt', 'p.x = 3', 'p.y = 4', 'q(1).x = p.x + p.y', 'PRINT q(1).x'])
    p('string-build', ['FOR i% = 1 TO 6', 's$ = s$ + CHR$(64 + i%)', 'NEXT', 'PRINT s$; LEN(s$)'])
    p('string-functions', ['s$ = "  Hello World "', 'PRINT UCASE$(LTRIM$(RTRIM$(s$)))',
                           'PRINT MID$(s$, 3, 5); LEFT$(s$, 3); RIGHT$(s$, 2)',
                           'PRINT INSTR(s$, "World"); ASC(MID$(s$, 3))', 'PRINT STRING$(3, "*"); SPACE$(2); "|"'])
    p('string-compare', ['a$ = "abc"', 'b$ = "abd"', 'IF a$ < b$ THEN PRINT "lt"',
                         'IF a$ + "x" = "abcx" THEN PRINT "eq"'])
    p('numeric-conversions', ['a! = 2.5', 'b# = 3.5', 'c% = a!', 'd& = b#', 'PRINT c%; d&; a! * b#',
                              'PRINT CINT(a!); CLNG(b#); INT(-a!)', 'PRINT STR$(b#); VAL("12.5")'])
    p('arithmetic', ['a% = 7', 'b% = 2', 'PRINT a% / b%; a% \\ b%; a% MOD b%; a% ^ b%; -a%',
                     'PRINT (a% > b%) AND (b% > 0); NOT a%; a% XOR b%'])
    p('data-read', ['DATA 3, 1.5, abc', 'DATA 4', 'READ a%, b!, c$', 'READ d%', 'RESTORE',
                    'READ e%', 'PRINT a%; b!; c$; d%; e%'])
    p('input-number', ['INPUT "n"; n%', 'FOR i% = 1 TO n%', 'PRINT i%', 'NEXT'], ['3'])
    p('input-retry', ['INPUT a%, b$', 'PRINT b$; a%'], ['x', '1,2,3', '4,ok'])
    p('input-strings', ['INPUT ; s$', 'INPUT "again", t$', 'PRINT s$ + t$'], ['ab', 'cd'])
    p('print-forms', ['PRINT 1, 2; 3', 'PRINT "a";', 'PRINT', 'PRINT , "z"', 'PRINT -1.5; 1e10'])
    p('print-using', ['PRINT USING "###.##"; 3.14159', 'PRINT USING "& is !"; "word"; "xyz"'])
    p('device-statements', ['CLS', 'COLOR 7, 1', 'LOCATE 3, 4', 'PRINT "x"', 'BEEP',
                            'SOUND 440, 1', 'WIDTH 80', 'VIEW PRINT 1 TO 10', 'SCREEN 0'])
    p('rnd-timer-inkey', ['RANDOMIZE 7', 'x! = RND', 't! = TIMER', 'k$ = INKEY$',
                          'PRINT x! < 1; t! >= 0; LEN(k$)'])
    p('peek-poke', ['DEF SEG = 0', 'POKE 1047, 0', 'PRINT PEEK(1047)', 'DEF SEG'])
    p('const-and-def', ['DEFINT A-Z', 'CONST k = 5', 'n = k * 2', 'PRINT n'])
    # programs in which a handler is (or becomes) armed
    p('handler-goto', ['ON ERROR GOTO h', 'a% = 0', 'PRINT 1 \\ a%', 'PRINT "after"',
                       'FOR i% = 1 TO 3', 'PRINT i%', 'NEXT', 'END', 'h:', 'PRINT "H"; ERR',
                       'RESUME NEXT'], armed='goto')
    p('handler-overflow-resume', ['ON ERROR GOTO h', 'a% = 32767', 'a% = a% + 1', 'PRINT a%',
                                  'END', 'h:', 'a% = 0', 'RESUME'], armed='goto')
    p('handler-next', ['ON ERROR RESUME NEXT', 'DIM a%(3)', 'a%(5) = 1', 'PRINT "after"',
                       'FOR i% = 1 TO 3', 'PRINT i%', 'NEXT'], armed='next')
    p('handler-late', ['FOR i% = 1 TO 3', 'PRINT i%', 'NEXT', 'ON ERROR GOTO h', 'PRINT CHR$(300)',
                       'ON ERROR GOTO 0', 'PRINT "off"', 'END', 'h:', 'RESUME NEXT'], armed='goto')
    p('handler-in-sub', ['ON ERROR GOTO h', 'CALL s', 'PRINT "back"', 'END', 'h:', 'PRINT "H"',
                         'RESUME NEXT', 'SUB s', 'DIM a%(2)', 'a%(3) = 1', 'PRINT "in"', 'END SUB'],
      armed='goto')
    return P


def arm_source(src, arming):
    """prefix an interrupt-catalogue program with an arming statement"""
    if arming == 'none':
        return src
    if arming == 'goto':
        lines = src.rstrip('\n').split('\n')
        # the handler goes before the first procedure (module-level code)
        k = len(lines)
        for i, l in enumerate(lines):
            if l.startswith(('SUB ', 'FUNCTION ')):
                k = i
                break
        main = lines[:k]
        if 'END' not in main:
            main.append('END')
        return '\n'.join(['ON ERROR GOTO zh'] + main + ['zh:', 'PRINT "ZH"', 'RESUME NEXT'] + lines[k:]) + '\n'
    return 'ON ERROR RESUME NEXT\n' + src
