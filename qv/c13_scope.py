"""C13 helper - a small reference model of *which names a debuggee can see, and
which of them have been assigned*, at every point of one execution.

It shares no code with qbee.  It understands only the subset of the language
the debuggees in programs/eval use (checked: anything else raises
`Unsupported`, a harness error, never a verdict):

  TYPE..END TYPE, CONST, DIM [SHARED], STATIC, DEFINT/DEFLNG/DEFSNG/DEFDBL/DEFSTR,
  SUB/FUNCTION (parameters `x`, `x%`, `x AS t`, `a() AS t`), assignments
  `[LET] lvalue = e`, FOR, sub calls (`name args`, `CALL name(args)`), function
  calls inside expressions, and statements without effect on variables.

Static part (`Program`): declarations per routine.  Dynamic part (`Tracker`):
fed with the statements the program executes (their source text, as the
debugger steps through them) it maintains call activations, parameter
bindings (by reference where the argument is a variable, an element, a field,
a whole array or a whole record) and the set of *assigned* storage paths.
Nothing here knows any value, with one exception: a variable subscript in an
assignment target (`d(i%) = ...`) must be *announced* by the debuggee itself:
the statement executed immediately before must be `PRINT i%` (the subscript
expressions, `;`-separated) and the tracker reads the subscripts from what the
program printed.
"""
import re

NUM, STR = 'num', 'str'
BUILTIN = {'INTEGER', 'LONG', 'SINGLE', 'DOUBLE', 'STRING'}
SUFFIX = {'%': 'INTEGER', '&': 'LONG', '!': 'SINGLE', '#': 'DOUBLE', '$': 'STRING'}
NAME = r'[A-Za-z][A-Za-z0-9]*[%&!#$]?'
NO_EFFECT = {'PRINT', 'IF', 'ELSEIF', 'ELSE', 'END', 'NEXT', 'DO', 'LOOP', 'WHILE', 'WEND',
             'SELECT', 'CASE', 'GOSUB', 'RETURN', 'GOTO', 'EXIT', 'REM', 'DECLARE', 'TYPE',
             'DEFINT', 'DEFLNG', 'DEFSNG', 'DEFDBL', 'DEFSTR', 'CONST', 'STATIC', 'CLS',
             'BEEP', 'RANDOMIZE', 'DATA', 'RESTORE', 'ON', 'RESUME', 'SHARED'}


class Unsupported(Exception):
    pass


def split_top(text, sep=','):
    """split at separators that are outside parentheses and string literals"""
    out, depth, cur, instr = [], 0, '', False
    for ch in text:
        if instr:
            cur += ch
            if ch == '"':
                instr = False
            continue
        if ch == '"':
            instr = True
            cur += ch
        elif ch == '(':
            depth += 1
            cur += ch
        elif ch == ')':
            depth -= 1
            cur += ch
        elif ch == sep and depth == 0:
            out.append(cur)
            cur = ''
        else:
            cur += ch
    out.append(cur)
    return [x.strip() for x in out]


def strip_comment(line):
    instr = False
    for i, ch in enumerate(line):
        if ch == '"':
            instr = not instr
        elif ch == "'" and not instr:
            return line[:i]
    return line


def statements_of(line):
    """the colon-separated statements of one source line"""
    line = strip_comment(line)
    return [s for s in split_top(line, ':') if s]


class Decl:
    """declared shape of a variable: element type + bounds
    bounds: None (scalar / record), list of (lb, ub) (static array), 'dyn'"""
    __slots__ = ('typ', 'bounds', 'shared')

    def __init__(self, typ, bounds=None, shared=False):
        self.typ = typ
        self.bounds = bounds
        self.shared = shared

    @property
    def is_array(self):
        return self.bounds is not None


class Routine:
    def __init__(self, name, kind, first, params=(), static_all=False):
        self.name = name              # lower case, without suffix for lookups of calls
        self.kind = kind              # 'main' | 'sub' | 'function'
        self.first = first            # 1-based line of the header (0 for main)
        self.last = None              # line of END SUB / END FUNCTION
        self.params = list(params)    # [(name, Decl)]
        self.static_all = static_all
        self.dims = {}                # name -> Decl   (DIM in this routine)
        self.statics = {}             # name -> Decl
        self.consts = {}              # name -> NUM | STR
        self.shared_stmt = set()      # names in a SHARED statement
        self.tokens = set()           # every identifier-like token of the routine's text


class Program:
    def __init__(self, src):
        self.src = src
        self.lines = src.rstrip('\n').split('\n')
        self.types = {}
        self.deftype = {}
        self.main = Routine('_main', 'main', 0)
        self.routines = {'_main': self.main}
        self.subs = {}                # call name (lower, no suffix) -> Routine
        self.line_routine = {}
        self.const_guess = {}
        self._scan()

    # ---- types -----------------------------------------------------------
    def type_of_name(self, name):
        if name[-1] in SUFFIX:
            return SUFFIX[name[-1]]
        return self.deftype.get(name[0].lower(), 'SINGLE')

    def leaf_paths(self, typ):
        """[(path, builtin type)] of the leaves of a type ('' for a builtin)"""
        t = typ.upper()
        if t in BUILTIN:
            return [('', t)]
        fields = self.types.get(typ.lower())
        if fields is None:
            raise Unsupported(f'unknown type {typ}')
        out = []
        for f, ft in fields:
            for p, lt in self.leaf_paths(ft):
                out.append(('.' + f + p, lt))
        return out

    def leaf_type(self, typ, fieldpath):
        """builtin type reached from `typ` through '.a.b' ('' -> typ itself)"""
        t = typ
        for f in [x for x in fieldpath.split('.') if x]:
            fields = self.types.get(t.lower())
            if fields is None:
                return None
            t = dict(fields).get(f.lower())
            if t is None:
                return None
        return t.upper() if t.upper() in BUILTIN else None

    # ---- scanning --------------------------------------------------------
    def _parse_bounds(self, text):
        out = []
        for d in split_top(text):
            m = re.fullmatch(r'(?:(-?\d+)\s+TO\s+)?(-?\d+)', d, re.I)
            if not m:
                return 'dyn'
            out.append((int(m.group(1)) if m.group(1) is not None else 0, int(m.group(2))))
        return out

    def _parse_decl(self, text, shared=False):
        """one clause of DIM / STATIC / a parameter: name[(bounds)] [AS type]"""
        m = re.fullmatch(rf'({NAME})\s*(\((.*)\))?\s*(?:AS\s+([A-Za-z][A-Za-z0-9]*))?', text.strip(), re.I)
        if not m:
            raise Unsupported(f'declaration clause {text!r}')
        name = m.group(1).lower()
        typ = m.group(4) or self.type_of_name(name)
        typ = typ.upper() if typ.upper() in BUILTIN else typ.lower()
        bounds = None
        if m.group(2) is not None:
            inner = m.group(3).strip()
            bounds = 'dyn' if inner == '' else self._parse_bounds(inner)
        return name, Decl(typ, bounds, shared)

    def _scan(self):
        cur = self.main
        in_type = None
        for ln, raw in enumerate(self.lines, 1):
            self.line_routine[ln] = cur
            for st in statements_of(raw):
                up = st.upper()
                w = re.match(r'[A-Za-z]+', st)
                w = w.group(0).upper() if w else ''
                if in_type is not None:
                    if re.fullmatch(r'END\s+TYPE', up):
                        in_type = None
                    else:
                        m = re.fullmatch(r'([A-Za-z][A-Za-z0-9]*)\s+AS\s+([A-Za-z][A-Za-z0-9]*)', st, re.I)
                        if not m:
                            raise Unsupported(f'TYPE field {st!r}')
                        ft = m.group(2)
                        self.types[in_type].append(
                            (m.group(1).lower(), ft.upper() if ft.upper() in BUILTIN else ft.lower()))
                    continue
                if w == 'TYPE':
                    in_type = st.split()[1].lower()
                    self.types[in_type] = []
                    continue
                if w in ('DEFINT', 'DEFLNG', 'DEFSNG', 'DEFDBL', 'DEFSTR'):
                    t = {'DEFINT': 'INTEGER', 'DEFLNG': 'LONG', 'DEFSNG': 'SINGLE',
                         'DEFDBL': 'DOUBLE', 'DEFSTR': 'STRING'}[w]
                    for rng in split_top(st[6:]):
                        a, _, b = rng.partition('-')
                        a = a.strip().lower()
                        b = (b.strip() or a).lower()
                        for c in range(ord(a), ord(b) + 1):
                            self.deftype[chr(c)] = t
                    continue
                m = re.match(rf'(SUB|FUNCTION)\s+({NAME})\s*(?:\((.*)\))?\s*(STATIC)?\s*$', st, re.I)
                if m and w in ('SUB', 'FUNCTION'):
                    params = []
                    if m.group(3) and m.group(3).strip():
                        for p in split_top(m.group(3)):
                            params.append(self._parse_decl(p))
                    name = m.group(2).lower()
                    cur = Routine(name, m.group(1).lower(), ln, params, bool(m.group(4)))
                    self.routines[name] = cur
                    self.subs[name.rstrip('%&!#$')] = cur
                    self.line_routine[ln] = cur
                    continue
                if re.fullmatch(r'END\s+(SUB|FUNCTION)', up):
                    cur.last = ln
                    cur = self.main
                    continue
                for tok in re.findall(NAME, re.sub(r'"[^"]*"', '""', st)):
                    cur.tokens.add(tok.lower())
                if w == 'CONST':
                    for c in split_top(st[5:]):
                        n, _, v = c.partition('=')
                        n = n.strip().lower()
                        cur.consts[n] = STR if ('"' in v or n.endswith('$')) else NUM
                        self.const_guess[n] = guess_const(n, v.strip())
                    continue
                if w == 'DIM':
                    body = st[3:].strip()
                    shared = False
                    if body.upper().startswith('SHARED'):
                        shared = True
                        body = body[6:].strip()
                    for c in split_top(body):
                        n, d = self._parse_decl(c, shared)
                        cur.dims[n] = d
                    continue
                if w == 'STATIC' and cur is not self.main:
                    for c in split_top(st[6:]):
                        n, d = self._parse_decl(c)
                        cur.statics[n] = d
                    continue
                if w == 'SHARED' and cur is not self.main:
                    for c in split_top(st[6:]):
                        cur.shared_stmt.add(c.split('(')[0].strip().lower())
                    continue
        if in_type is not None:
            raise Unsupported('unterminated TYPE')

    def const_class(self, routine, name):
        if name in routine.consts:
            return routine.consts[name]
        if name in self.main.consts:
            return self.main.consts[name]
        return None


# ---------------------------------------------------------------------------
# dynamic part

class Store:
    """one variable's storage: declared shape + the set of assigned leaf paths
    ('' scalar, '(1,2)', '.m.p', '(2).q')"""
    __slots__ = ('decl', 'assigned', 'dimmed')

    def __init__(self, decl, assigned=()):
        self.decl = decl
        self.assigned = set(assigned)
        self.dimmed = False


class Activation:
    def __init__(self, routine):
        self.routine = routine
        self.locals = {}          # name -> Store
        self.params = {}          # name -> (Store, prefix, Decl as seen by the callee)
        self.pending = None       # effects of the statement a call was made from
        self.pending_sid = None
        self.cur_text = None
        self.announce = None      # {subscript text: int} from the PRINT just executed
        self.calls_made = {}      # calls already made from the current statement, per routine


LV = re.compile(rf'({NAME})\s*(\(([^()]*)\))?((?:\.[A-Za-z][A-Za-z0-9]*)*)')


def norm(s):
    return re.sub(r'\s+', '', s).lower()


class Tracker:
    def __init__(self, prog):
        self.prog = prog
        self.globals = {}         # main-level stores (shared or not)
        self.statics = {}         # routine name -> {name: Store}
        self.stack = [Activation(prog.main)]
        self.entering = None      # routine whose header statement we are stopped at

    @property
    def act(self):
        return self.stack[-1]

    # ---- name resolution -------------------------------------------------
    def resolve(self, act, name, create=False):
        """-> (Store, prefix, Decl) or None"""
        r = act.routine
        p = self.prog
        if r is p.main:
            st = self.globals.get(name)
            if st is None and (create or name in r.dims):
                st = self.globals[name] = Store(r.dims.get(name) or Decl(p.type_of_name(name)))
            return (st, '', st.decl) if st else None
        if name in act.params:
            return act.params[name]
        if name in r.statics or (r.static_all and (name in r.dims or name in self.statics.get(r.name, {}))):
            d = self.statics.setdefault(r.name, {})
            st = d.get(name)
            if st is None:
                st = d[name] = Store(r.statics.get(name) or r.dims.get(name) or Decl(p.type_of_name(name)))
            return (st, '', st.decl)
        if name in r.dims:
            st = act.locals.get(name)
            if st is None:
                st = act.locals[name] = Store(r.dims[name])
            return (st, '', st.decl)
        if name in act.locals:
            st = act.locals[name]
            return (st, '', st.decl)
        md = p.main.dims.get(name)
        if (md is not None and md.shared) or name in r.shared_stmt:
            st = self.globals.get(name)
            if st is None:
                st = self.globals[name] = Store(md or Decl(p.type_of_name(name)))
            return (st, '', st.decl)
        if create:
            if r.static_all:
                st = self.statics.setdefault(r.name, {})[name] = Store(Decl(p.type_of_name(name)))
            else:
                st = act.locals[name] = Store(Decl(p.type_of_name(name)))
            return (st, '', st.decl)
        return None

    # ---- parsing an lvalue text into (name, path) ------------------------
    def lvalue(self, act, text, need_values=True):
        """'w(2)' -> ('w', '(2)', '') ; 'arr(i%).q' -> ('arr', '(3)', '.q')
        returns None when `text` is not a pure lvalue"""
        m = LV.fullmatch(text.strip())
        if not m:
            return None
        name = m.group(1).lower()
        sub = ''
        if m.group(2) is not None:
            inner = m.group(3).strip()
            if inner == '':
                return (name, '()', '')
            vals = []
            for s in split_top(inner):
                if re.fullmatch(r'-?\d+', s):
                    vals.append(int(s))
                elif act.announce is not None and norm(s) in act.announce:
                    vals.append(act.announce[norm(s)])
                elif not need_values:
                    return (name, None, (m.group(4) or '').lower())
                else:
                    raise Unsupported(f'subscript {s!r} of {text!r} is neither a constant nor announced '
                                      f'by a PRINT immediately before')
            sub = '(' + ','.join(str(v) for v in vals) + ')'
        return (name, sub, (m.group(4) or '').lower())

    # ---- effects ---------------------------------------------------------
    def effects(self, act, text):
        """list of (name, path) assigned by executing statement `text`"""
        st = text.strip()
        w = re.match(r'[A-Za-z]+', st)
        w = w.group(0).upper() if w else ''
        if w == 'FOR':
            m = re.match(rf'FOR\s+({NAME})\s*=', st, re.I)
            return [(m.group(1).lower(), '')]
        if w == 'DIM':
            return [('#dim', n) for n in
                    [c.split('(')[0].split()[0].strip().lower()
                     for c in split_top(re.sub(r'^DIM\s+(SHARED\s+)?', '', st, flags=re.I))]]
        if w in NO_EFFECT or w in ('SUB', 'FUNCTION', 'CALL'):
            return []
        if w in ('INPUT', 'READ', 'SWAP', 'LINE', 'GET', 'REDIM', 'ERASE', 'LSET', 'RSET', 'MID'):
            raise Unsupported(f'statement {st!r}')
        body = st[3:].strip() if w == 'LET' else st
        parts = split_eq(body)
        if parts is None:
            # a sub call `name args` (no effect of its own)
            # no top-level '=': a sub call `name args`, a CASE clause's value
            # list, ... : nothing is assigned by the statement itself
            return []
        lv = self.lvalue(act, parts[0])
        if lv is None:
            raise Unsupported(f'assignment target {parts[0]!r}')
        name, sub, fld = lv
        r = act.routine
        if r.kind == 'function' and name.rstrip('%&!#$') == r.name.rstrip('%&!#$') and not sub:
            return []                 # the function's result
        return [(name, sub + fld)]

    def apply(self, act, effs):
        for name, path in effs:
            if name == '#dim':
                b = self.resolve(act, path, create=True)
                b[0].dimmed = True
                continue
            b = self.resolve(act, name, create=True)
            store, prefix, decl = b
            store.assigned.add(prefix + path)

    # ---- calls -----------------------------------------------------------
    def bind_call(self, caller, routine):
        """activation of `routine` called from the statement caller.cur_text"""
        text = caller.cur_text or ''
        base = routine.name.rstrip('%&!#$')
        args = None
        m = re.match(rf'\s*(CALL\s+)?{re.escape(base)}\b[%&!#$]?\s*(.*)$', text, re.I)
        if m and routine.kind == 'sub':
            rest = m.group(2).strip()
            if m.group(1) and rest.startswith('('):
                rest = rest[1:rest.rindex(')')]
            args = split_top(rest) if rest else []
        else:
            hits = [x for x in re.finditer(rf'\b{re.escape(base)}[%&!#$]?\s*\(', text, re.I)]
            nth = caller.calls_made.get(base, 0)
            caller.calls_made[base] = nth + 1
            if nth >= len(hits):
                if not routine.params:
                    args = []
                else:
                    raise Unsupported(f'cannot find call {nth + 1} of {base} in {text!r}')
            else:
                i = hits[nth].end()
                depth, j = 1, i
                while depth:
                    if text[j] == '(':
                        depth += 1
                    elif text[j] == ')':
                        depth -= 1
                    j += 1
                args = split_top(text[i:j - 1])
        if len(args) != len(routine.params):
            raise Unsupported(f'{len(args)} arguments for {len(routine.params)} parameters: {text!r}')
        act = Activation(routine)
        for (pname, pdecl), a in zip(routine.params, args):
            lv = None
            try:
                lv = self.lvalue(caller, a)
            except Unsupported:
                raise
            b = None
            if lv is not None and self.prog.const_class(caller.routine, lv[0]) is None \
                    and lv[0].rstrip('%&!#$') not in self.prog.subs:
                b = self.resolve(caller, lv[0], create=False)
            if lv is None or b is None:
                act.params[pname] = (Store(pdecl, ['']), '', pdecl)      # a temporary
                continue
            name, sub, fld = lv
            store, prefix, decl = b
            if sub == '()' or (not sub and not fld and (decl.is_array or decl.typ not in BUILTIN)):
                # a whole array / a whole record: shares the caller's storage
                act.params[pname] = (store, prefix, decl)
                continue
            path = prefix + sub + fld
            if path not in store.assigned:
                raise Unsupported(f'argument {a!r} of {text!r} is not assigned at the call')
            # what the parameter is, seen from the callee
            t = decl.typ
            for f in [x for x in fld.split('.') if x]:
                t = dict(self.prog.types[t.lower()])[f]
            act.params[pname] = (store, path, Decl(t))
        return act

    # ---- the driver's interface ------------------------------------------
    def before_step(self, text, sid):
        """the statement about to execute (or to continue) in the current activation"""
        act = self.act
        if is_header(text):
            return ('header', None)
        if act.pending_sid is not None and act.pending_sid == sid:
            effs = act.pending
        else:
            effs = self.effects(act, text)
            act.cur_text = text
            act.calls_made = {}
        return (act, effs, sid, text)

    def after_step(self, token, new_depth, new_text, new_sid, printed):
        """`printed` = what the program printed during the step"""
        if token[0] == 'header':
            # the callee's frame exists now (or the program ended)
            if new_depth > len(self.stack):
                caller = self.act
                self.stack.append(self.bind_call(caller, self.entering))
            self.entering = None
            self._sync(new_depth, new_text, new_sid)
            return
        act, effs, sid, text = token
        if new_text is not None and is_header(new_text) and new_depth >= len(self.stack):
            # a call is being made from inside this statement: its effects wait
            act.pending, act.pending_sid = effs, sid
            m = re.match(rf'\s*(?:SUB|FUNCTION)\s+({NAME})', new_text, re.I)
            self.entering = self.prog.routines[m.group(1).lower()]
            return
        act.pending = act.pending_sid = None
        self.apply(act, effs)
        # announcement for the next statement
        act.announce = None
        if re.match(r'\s*PRINT\b', text, re.I):
            items = [norm(x) for x in split_top(text.strip()[5:], ';') if x.strip()]
            vals = printed.split()
            if items and len(items) == len(vals) and all(re.fullmatch(r'-?\d+', v) for v in vals):
                act.announce = dict(zip(items, (int(v) for v in vals)))
        self._sync(new_depth, new_text, new_sid)

    def _sync(self, new_depth, new_text, new_sid):
        while len(self.stack) > max(new_depth, 1):
            self.stack.pop()
            act = self.act
            if act.pending_sid is not None and act.pending_sid != new_sid:
                self.apply(act, act.pending)
                act.pending = act.pending_sid = None
        if new_text is not None and is_header(new_text) and self.entering is None:
            m = re.match(rf'\s*(?:SUB|FUNCTION)\s+({NAME})', new_text, re.I)
            self.entering = self.prog.routines[m.group(1).lower()]

    # ---- what is visible and assigned now --------------------------------
    def atoms(self):
        """[(text, NUM|STR, kind)] of the assigned atoms visible in the current
        activation; kind in const|scalar|element|field|elemfield x storage class"""
        act = self.act
        r = act.routine
        p = self.prog
        out = []
        seen = set()

        def add_store(name, store, prefix, decl, klass):
            if name in seen:
                return
            seen.add(name)
            for path in sorted(store.assigned):
                if not path.startswith(prefix):
                    continue
                rel = path[len(prefix):]
                if prefix and rel and rel[0] not in '(.':
                    continue
                m = re.fullmatch(r'(\([^)]*\))?((?:\.[a-z][a-z0-9]*)*)', rel)
                if not m:
                    continue
                if bool(m.group(1)) != decl.is_array:
                    continue
                lt = p.leaf_type(decl.typ, m.group(2) or '')
                if lt is None:
                    continue
                shape = ('elem' if m.group(1) else '') + ('field' if m.group(2) else '') or 'scalar'
                txt = name + (m.group(1) or '').replace(',', ', ') + (m.group(2) or '')
                spelled = SUFFIX.get(name[-1], 'SINGLE')
                tag = 'array' if m.group(1) else ('record' if m.group(2) else
                                                  ('plain' if lt == spelled else 'as:' + lt))
                if m.group(1) and m.group(2):
                    tag = 'array-of-records'
                out.append((txt, STR if lt == 'STRING' else NUM, f'{klass}-{shape}', lt, tag))

        for n, c in r.consts.items():
            out.append((n, c, 'globalconst' if r is p.main else 'localconst', 'c:' + p.const_guess.get(n, '?'),
                        'plain' if p.const_guess.get(n) == SUFFIX.get(n[-1], 'SINGLE') else 'const:' + p.const_guess.get(n, '?')))
            seen.add(n)
        if r is p.main:
            for n, st in self.globals.items():
                if n in seen:
                    continue
                add_store(n, st, '', st.decl, 'shared' if st.decl.shared else 'main')
        else:
            for n, (st, prefix, decl) in act.params.items():
                add_store(n, st, prefix, decl, 'param')
            for n, st in act.locals.items():
                add_store(n, st, '', st.decl, 'local')
            for n, st in self.statics.get(r.name, {}).items():
                add_store(n, st, '', st.decl, 'static')
            for n, st in self.globals.items():
                if (st.decl.shared or n in r.shared_stmt) and n not in seen:
                    add_store(n, st, '', st.decl, 'shared')
            for n, c in p.main.consts.items():
                if n not in seen:
                    out.append((n, c, 'globalconst', 'c:' + p.const_guess.get(n, '?'),
                        'plain' if p.const_guess.get(n) == SUFFIX.get(n[-1], 'SINGLE') else 'const:' + p.const_guess.get(n, '?')))
                    seen.add(n)
        if r is p.main:
            pass
        return out

    def arrays_in_scope(self):
        """[(name, bounds)] of the static arrays whose DIM has executed"""
        act = self.act
        out = []
        names = list(act.params) + list(act.locals) + list(self.statics.get(act.routine.name, {})) + \
            list(self.globals)
        seen = set()
        for n in names:
            if n in seen:
                continue
            seen.add(n)
            b = self.resolve(act, n)
            if b is None:
                continue
            store, prefix, decl = b
            sd = store.decl
            if decl.is_array and isinstance(sd.bounds, list) and prefix == '' and \
                    (store.dimmed or store.assigned):
                out.append((n, sd.bounds, decl.typ))
        return out

    def foreign_names(self):
        """names that exist elsewhere in the program but mean nothing here"""
        act = self.act
        r = act.routine
        p = self.prog
        out = []
        for other in p.routines.values():
            if other is r:
                continue
            cands = [n for n, _ in other.params] + list(other.dims) + list(other.statics) + \
                list(other.consts if other is not p.main else [])
            if other is p.main:
                cands += [n for n in self.globals]
            for n in cands:
                if n in r.tokens or n in out:
                    continue
                if self.resolve(act, n) is not None or p.const_class(r, n) is not None:
                    continue
                if n.rstrip('%&!#$') in p.subs:
                    continue
                out.append(n)
        return out


def guess_const(name, v):
    """a label for the kind of constant (only used to group expressions)"""
    if '"' in v or name.endswith('$'):
        return 'STRING'
    if name[-1] in SUFFIX:
        return SUFFIX[name[-1]]
    if re.fullmatch(r'-?\d+', v):
        return 'INTEGER' if abs(int(v)) <= 32767 else 'LONG'
    if re.fullmatch(r'-?\d*\.\d*', v):
        return 'SINGLE'
    return 'EXPR'


def split_eq(body):
    """split `lvalue = expr` at the first top-level '=' ; None if there is none"""
    depth, instr = 0, False
    for i, ch in enumerate(body):
        if ch == '"':
            instr = not instr
        elif instr:
            continue
        elif ch == '(':
            depth += 1
        elif ch == ')':
            depth -= 1
        elif ch == '=' and depth == 0:
            return body[:i].strip(), body[i + 1:].strip()
    return None


def is_header(text):
    return re.match(r'\s*(SUB|FUNCTION)\s', text or '', re.I) is not None
