"""C17 family `history`: the text of a PRINT statement does not depend on what
was written before it.

Alphabet: typed numbers held in variables; the same number occurs at several
types, in particular as SINGLE and as a DOUBLE that received the SINGLE, whose
texts differ (7 against up to 17 digits).  An element of a statement is
';' | ',' | 'n:<code>' (the variable) | 's:<code>' (STR$ of the variable); a
statement is a list of elements, or ['a:<code>'] for `zz$ = STR$(v)` (a step
that formats a number and writes nothing).  A program is a list of statements
run in one machine.

Oracle: statement i writes printfmt.layout of its own elements, where the text
of number <code> is the reference text: what `PRINT v` alone wrote in a process
forked for that one program (likewise the value of STR$(v)).  The reference
text itself only has to be a number text of the value (qv.ref.numtext, C16's
reading) that is the same in all six configurations."""
import struct

from . import impl
from . import c17_run
from .c17_run import observe, isolated, cfgname
from .ref import printfmt, numtext


def f32(x):
    return struct.unpack('<f', struct.pack('<f', x))[0]


# code -> ((type, value), variable, assignments needed, in order)
H = [
    ('i5', ('INTEGER', 5), 'qa%', ['qa% = 5']),
    ('l5', ('LONG', 5), 'qb&', ['qb& = 5']),
    ('s5', ('SINGLE', 5.0), 'qc!', ['qc! = 5']),
    ('d5', ('DOUBLE', 5.0), 'qd#', ['qd# = 5']),
    ('lM', ('LONG', 16777216), 'qe&', ['qe& = 16777216']),
    ('sM', ('SINGLE', 16777216.0), 'qf!', ['qf! = 16777216']),
    ('dM', ('DOUBLE', 16777216.0), 'qg#', ['qg# = 16777216']),
    ('sT', ('SINGLE', f32(.1)), 'qh!', ['qh! = .1']),
    ('wT', ('DOUBLE', f32(.1)), 'qi#', ['qh! = .1', 'qi# = qh!']),
    ('dT', ('DOUBLE', .1), 'qj#', ['qj# = .1#']),
    ('sR', ('SINGLE', f32(1 / 3)), 'qk!', ['qk! = 1# / 3']),
    ('wR', ('DOUBLE', f32(1 / 3)), 'ql#', ['qk! = 1# / 3', 'ql# = qk!']),
    ('dR', ('DOUBLE', 1 / 3), 'qm#', ['qm# = 1# / 3']),
    ('sG', ('SINGLE', 1e10), 'qn!', ['qn! = 1E+10']),
    ('dG', ('DOUBLE', 1e10), 'qo#', ['qo# = 1D+10']),
    ('sH', ('SINGLE', -.5), 'qp!', ['qp! = -.5']),
    ('dH', ('DOUBLE', -.5), 'qq#', ['qq# = -.5#']),
    ('sX', ('SINGLE', f32(1e-10)), 'qr!', ['qr! = 1E-10']),
    ('wX', ('DOUBLE', f32(1e-10)), 'qs#', ['qr! = 1E-10', 'qs# = qr!']),
    ('dX', ('DOUBLE', 1e-10), 'qt#', ['qt# = 1D-10']),
    ('sY', ('SINGLE', f32(1e20)), 'qu!', ['qu! = 1E+20']),
    ('wY', ('DOUBLE', f32(1e20)), 'qv#', ['qu! = 1E+20', 'qv# = qu!']),
    ('dY', ('DOUBLE', 1e20), 'qw#', ['qw# = 1D+20']),
    ('sN', ('SINGLE', -f32(.1)), 'qx!', ['qx! = -.1']),
    ('wN', ('DOUBLE', -f32(.1)), 'qy#', ['qx! = -.1', 'qy# = qx!']),
]
HD = {h[0]: h for h in H}
ALL = [h[0] for h in H]
# the same number at two types with different texts (and the DOUBLE 0.1, whose text equals a SINGLE's)
CORE14 = ['lM', 'sM', 'dM', 'sT', 'wT', 'dT', 'sR', 'wR', 'sX', 'wX', 'sY', 'wY', 'sN', 'wN']
CORE8 = ['sM', 'dM', 'sT', 'wT', 'sR', 'wR', 'sY', 'wY']
CFG_Q = [(0, False), (2, True)]


# ---- programs ---------------------------------------------------------------

def codes_of(stmt):
    return [e[2:] for e in stmt if len(e) > 1]


def stmt_text(stmt):
    if stmt[0].startswith('a:'):
        return 'zz$ = STR$(%s)' % HD[stmt[0][2:]][2]
    parts = []
    for e in stmt:
        if e in (';', ','):
            parts.append(e)
        elif e.startswith('n:'):
            parts.append(' ' + HD[e[2:]][2])
        else:
            parts.append(' STR$(%s)' % HD[e[2:]][2])
    return ('PRINT' + ''.join(parts)).rstrip()


def program(prog):
    pre = []
    for st in prog:
        for c in codes_of(st):
            for line in HD[c][3]:
                if line not in pre:
                    pre.append(line)
    body = []
    for st in prog:
        body += ['BEEP', stmt_text(st)]
    return '\n'.join(pre + body + ['BEEP', 'END']) + '\n'


def kinds(stmt):
    out = ''
    for e in stmt:
        if e in (';', ','):
            out += e
        else:
            out += {'n': '', 's': '$', 'a': 'A:'}[e[0]] + HD[e[2:]][1][0][0]
    return out


def is_print(stmt):
    return not stmt[0].startswith('a:')


def expected(stmt, refs):
    """-> (model elements, number_text mapping) of a PRINT statement"""
    elems = []
    ntext = {}
    for e in stmt:
        if e in (';', ','):
            elems.append(e)
        elif e.startswith('n:'):
            tv = HD[e[2:]][1]
            elems.append(tv)
            ntext[tv] = refs[e[2:]]['num']
        else:
            elems.append(('STRING', refs[e[2:]]['str']))
    return elems, ntext


def same_items(typed, elems):
    if typed is None or len(typed) != len(elems):
        return False
    for t, e in zip(typed, elems):
        if isinstance(e, str):
            if t != e:
                return False
            continue
        if not (isinstance(t, tuple) and len(t) == 2 and t[0] == e[0] and type(t[1]) is type(e[1])):
            return False
        if e[0] == 'SINGLE':
            if f32(t[1]) != f32(e[1]):
                return False
        elif t[1] != e[1]:
            return False
    return True


# ---- reference texts ----------------------------------------------------------

def _ref_one(code):
    """in a fresh child: `PRINT v` alone in the six configurations, then
    `PRINT STR$(v)` alone in the six configurations (nothing but this one typed
    value is ever formatted in the process)
    -> {what: list of (cfg, status, text, typed)}"""
    impl.parse_cache(True)
    res = {}
    for what in ('num', 'str'):
        prog = [['n:' + code]] if what == 'num' else [['s:' + code]]
        src = program(prog)
        out = []
        for cfg in impl.CONFIGS:
            status, texts, typed = observe(src, 1, cfg)
            out.append((cfg, status, printfmt.normalise(texts[0]) if status == 'ok' else None,
                        typed[0] if status == 'ok' and typed else None))
        res[what] = out
    return res


def reference(code):
    """-> (ref or None, violations).  ref = {'num': text of the number, 'str': value of STR$}"""
    tv = HD[code][1]
    viol = []
    ref = {}

    def bad(div, what, exp, got, cfg):
        prog = [['n:' + code]] if what == 'num' else [['s:' + code]]
        feat = {'family': 'history', 'divergence': div, 'shape': 'reference', 'stmt': kinds(prog[0]),
                'before': '', 'config': cfgname(cfg)}
        case = {'kind': 'reference', 'code': code, 'what': what, 'prog': prog, 'config': list(cfg),
                'source': program(prog)}
        viol.append((feat, case, exp, got, 1))

    both = isolated(_ref_one, code)
    for what in ('num', 'str'):
        runs = both[what]
        vals = []
        for cfg, status, text, typed in runs:
            if status != 'ok':
                bad('outcome', what, 'runs', status, cfg)
                continue
            if what == 'num':
                if not same_items(typed, [tv]):
                    bad('items', what, impl.jsonable([tv]), impl.jsonable(typed), cfg)
                    continue
                if not text.endswith(' ' + printfmt.EOL):
                    bad('reference-layout', what, 'number text, one blank, line break', text, cfg)
                    continue
                vals.append((cfg, text[:-len(' ' + printfmt.EOL)]))
            else:
                if not (typed and len(typed) == 1 and isinstance(typed[0], tuple) and typed[0][0] == 'STRING'):
                    bad('items', what, 'one STRING item', impl.jsonable(typed), cfg)
                    continue
                if text != typed[0][1] + printfmt.EOL:
                    bad('reference-layout', what, typed[0][1] + printfmt.EOL, text, cfg)
                    continue
                vals.append((cfg, typed[0][1]))
        if len(vals) != len(runs):
            return None, viol
        if any(v != vals[0][1] for _, v in vals):
            c = [c for c, v in vals if v != vals[0][1]][0]
            bad('reference-config', what, vals[0][1], dict((cfgname(c), v) for c, v in vals), c)
            return None, viol
        ref[what] = vals[0][1]
    # the reference must be a number text of the value (nothing more is demanded of it)
    t = ref['num']
    if tv[0] in ('INTEGER', 'LONG'):
        if t != numtext.int_text(tv[1]):
            bad('reference-numtext', 'num', numtext.int_text(tv[1]), t, (0, False))
    else:
        failed, _, _ = numtext.judge_float_text(t, tv[1], tv[0])
        if failed:
            bad('reference-numtext', 'num', 'a numeral of the value: ' + ','.join(failed), t, (0, False))
    return ref, viol


def ref_chunk(chunk):
    viol, refs = [], {}
    for code in chunk:
        ref, v = reference(code)
        refs[code] = ref
        viol += v
    return viol, refs


# ---- judging programs -----------------------------------------------------------

def judge_program(prog, cfg, refs):
    """-> (list of (index, divergence, expected, observed), src, number of statements judged)"""
    src = program(prog)
    status, texts, typed = observe(src, len(prog), cfg)
    if status != 'ok':
        return [(len(prog) - 1, 'outcome', 'runs', status)], src, 0
    bad = []
    pi = 0
    for i, st in enumerate(prog):
        got = printfmt.normalise(texts[i])
        if not is_print(st):
            if got != '':
                bad.append((i, 'text', '', got))
            continue
        elems, ntext = expected(st, refs)
        t = typed[pi] if typed and pi < len(typed) else None
        pi += 1
        if not same_items(t, elems):
            # a STR$ item whose value differs from the reference value is a history dependence too
            strs_only = t is not None and len(t) == len(elems) and all(
                same_items([a], [b]) or (isinstance(b, tuple) and b[0] == 'STRING' and
                                         isinstance(a, tuple) and a[0] == 'STRING')
                for a, b in zip(t, elems))
            bad.append((i, 'str-value' if strs_only else 'items', impl.jsonable(elems), impl.jsonable(t)))
            continue
        exp = printfmt.layout(elems, ntext)
        if got != exp:
            bad.append((i, 'text', exp, got))
    return bad, src, len(prog)


def shape_of(prog):
    if len(prog) == 1:
        return 'two-items-str' if any(e.startswith('s:') for e in prog[0]) else 'two-items'
    return {2: 'pair', 3: 'triple'}.get(len(prog), 'seq%d' % len(prog))


def sensitive(prog, refs):
    """number of statements that format a number which an earlier step (or item)
    formatted at another type with another text - the cases a value-keyed memo
    would get wrong"""
    seen = []
    n = 0
    for st in prog:
        hit = False
        for c in codes_of(st):
            tv = HD[c][1]
            for c2 in seen:
                tv2 = HD[c2][1]
                if abs(tv2[1]) == abs(tv[1]) and tv2[0] != tv[0] and \
                        refs[c2]['num'].lstrip(' -') != refs[c]['num'].lstrip(' -'):
                    hit = True
            seen.append(c)
        n += hit
    return n


def make_violation(prog, cfg, refs, i, div, exp, got, src):
    feat = {'family': 'history', 'divergence': div, 'shape': shape_of(prog), 'stmt': kinds(prog[i]),
            'before': '|'.join(kinds(s) for s in prog[:i]), 'config': cfgname(cfg)}
    used = sorted(set(c for s in prog for c in codes_of(s)))
    case = {'kind': 'program', 'prog': [list(s) for s in prog], 'config': list(cfg), 'index': i,
            'source': src, 'statement': stmt_text(prog[i]),
            'references': dict((c, refs[c]) for c in used)}
    size = 10 * len(prog) + sum(len(s) for s in prog)
    return (feat, case, exp, got, size)


def eval_job(job, refs):
    """runs in a child forked for this job"""
    impl.parse_cache(True)
    shape, cfgs, progs = job
    viol = []
    st = {'evaluations': 0, 'programs': 0, 'nontrivial': 0, 'texts': set(), 'hist_sensitive': 0,
          'hist_skipped_no_reference': 0, 'hist_statements': 0}
    for prog in progs:
        if any(refs.get(c) is None for s in prog for c in codes_of(s)):
            st['hist_skipped_no_reference'] += 1
            continue
        sens = sensitive(prog, refs)
        for cfg in cfgs:
            st['programs'] += 1
            bad, src, n = judge_program(prog, cfg, refs)
            st['evaluations'] += len(prog)
            st['hist_statements'] += len(prog)
            st['nontrivial'] += len(prog)
            st['hist_sensitive'] += sens
            li = len(c17_run.LOG) - 1
            badidx = set(b[0] for b in bad)
            for i, s in enumerate(prog):
                if i not in badidx and is_print(s) and n:
                    e, nt = expected(s, refs)
                    st['texts'].add(printfmt.layout(e, nt))
            for i, div, exp, got in bad:
                v = make_violation(prog, cfg, refs, i, div, exp, got, src)
                v[1]['log_index'] = li
                viol.append(v)
    return viol, st, (list(c17_run.LOG) if viol else [])


def recheck(case):
    """in a fresh child: does the case violate on its own?"""
    return check_case(case)[0]


def check_case(case, refs=None):
    """-> (violates, description) ; refs default to the ones stored in the case"""
    cfg = tuple(case['config'])
    if case['kind'] == 'reference':
        ref, viol = reference(case['code'])
        return bool(viol), {'reference': ref, 'violations': [(v[0]['divergence'], v[2], v[3]) for v in viol]}
    refs = refs or case['references']
    prog = [list(s) for s in case['prog']]
    bad, src, n = judge_program(prog, cfg, refs)
    return bool(bad), {'deviations': [{'statement': stmt_text(prog[i]), 'divergence': d,
                                       'expected': e, 'observed': g} for i, d, e, g in bad]}


def hist_chunk(chunk, refs):
    """worker side: each job in a child of its own -> [(violations, stats, log)]"""
    return [isolated(eval_job, job, refs) for job in chunk]


# ---- the space -------------------------------------------------------------------

def _chunks(lst, n):
    return [lst[i:i + n] for i in range(0, len(lst), n)]


def space(tier):
    """-> (jobs, description)"""
    quick = tier == 'quick'
    jobs = []
    d = {}
    # one statement, two items: the second item is formatted after the first
    plain_alpha = CORE14 if quick else ALL
    mix_alpha = CORE8 if quick else CORE14
    mix_seps = [';'] if quick else [';', ',']
    cfgs = CFG_Q if quick else impl.CONFIGS
    two = [[['n:' + a, sep, 'n:' + b]] for a in plain_alpha for b in plain_alpha for sep in (';', ',')]
    mix = [[[x + a, sep, y + b]] for a in mix_alpha for b in mix_alpha for sep in mix_seps
           for x, y in (('s:', 'n:'), ('n:', 's:'), ('s:', 's:'))]
    for c in _chunks(two + mix, 150 if quick else 250):
        jobs.append(('two-items', cfgs, c))
    d['two_items'] = {'programs': len(two) + len(mix), 'alphabet_plain': plain_alpha,
                      'alphabet_with_STR$': mix_alpha, 'separators_with_STR$': mix_seps,
                      'configs': [cfgname(c) for c in cfgs]}
    # ordered pairs of statements
    firsts = [['n:' + c] for c in ALL] + [['s:' + c] for c in ALL] + [['a:' + c] for c in CORE14]
    seconds = [['n:' + c] for c in ALL] + [['s:' + c] for c in ALL]
    pcfgs = [(0, False)] if quick else impl.CONFIGS
    npairs = 0
    for fs in _chunks(firsts, 8):
        progs = [[f, s] for f in fs for s in seconds]
        npairs += len(progs)
        jobs.append(('pair', pcfgs, progs))
    d['pairs'] = {'programs': npairs, 'first': 'PRINT v | PRINT STR$(v) over all items; zz$ = STR$(v) over CORE14',
                  'second': 'PRINT v | PRINT STR$(v) over all items', 'configs': [cfgname(c) for c in pcfgs]}
    if quick:
        core = [['n:' + c] for c in CORE8] + [['s:' + c] for c in CORE8] + [['a:' + c] for c in CORE8]
        progs = [[f, s] for f in core for s in core[:16]]
        jobs.append(('pair', [(2, True)], progs))
        d['pairs_O2g'] = {'programs': len(progs), 'alphabet': CORE8, 'configs': ['O2g']}
    # triples
    if quick:
        t1 = [['n:' + c] for c in CORE8]
        tcfgs = [(0, False)]
    else:
        t1 = [['n:' + c] for c in CORE8] + [['s:' + c] for c in CORE8]
        tcfgs = CFG_Q
    triples = [[a, b, c] for a in t1 for b in t1 for c in t1]
    if not quick:
        t2 = [['n:' + c] for c in CORE14]
        triples += [[a, b, c] for a in t2 for b in t2 for c in t2
                    if not (a[0][2:] in CORE8 and b[0][2:] in CORE8 and c[0][2:] in CORE8)]
    for c in _chunks(triples, 512):
        jobs.append(('triple', tcfgs, c))
    d['triples'] = {'programs': len(triples), 'configs': [cfgname(c) for c in tcfgs],
                    'statements': 'PRINT v over CORE8' if quick else
                    'PRINT v | PRINT STR$(v) over CORE8; PRINT v over CORE14'}
    d['items'] = dict((h[0], [h[1][0], repr(h[1][1])]) for h in H)
    d['CORE14'] = CORE14
    d['CORE8'] = CORE8
    d['programs'] = sum(len(j[2]) * len(j[1]) for j in jobs)
    return jobs, d
