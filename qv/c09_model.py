"""C09 - independent model of the module format, the instruction encoding,
the assembly listing and the storage layout.

Nothing in here imports qbee or qvm except `selfcheck_isa`, which compares
the frozen tables below with `qvm.instrs` / the device table at start-up
(a mismatch means the harness is out of date, not that qbee is wrong).

The four views of one compilation that C09 compares:
    B  the bytes                (sections split and decoded by this module)
    M  the loader               (QModule.parse, through qv.impl.load)
    D  the disassembler's text  (QModule.disassemble)
    L  the listing              (str(code))
"""
import re
import struct

# ---------------------------------------------------------------------------
# frozen instruction table:  mnemonic opcode [operand kinds]
#   B uint8   h int16   H uint16   i int32   A uint32 code address (label)
#   f float32 d float64 S uint16 index into the literal table
#   V uint16 variable slot (scope from the mnemonic)   O uint16 offset

_ISA_TEXT = """
abs 136|add 2|allocarr 101 B i|and 3|arridx 4 B|asc 121|call 5 A|chr 116|
cint 129|clng 130|cmp 105|conv%& 6|conv%! 7|conv%# 8|conv&% 9|conv&! 10|
conv&# 11|conv!% 12|conv!& 13|conv!# 14|conv#% 15|conv#& 16|conv#! 17|
deref% 18|deref& 122|deref! 123|deref# 124|deref$ 125|div 19|dupl 103|eq 20|
eqv 21|errget 138|errhand 139 A|errline 141|errraise 142|errres 143|
errresn 144|exp 22|frame 23 H H|ge 24|gt 102|halt 100|idiv 25|ijmp 109|
initarrg 126 V B i|initarrl 127 V B i|int 111|imp 26|io 27 B B|jmp 28 A|
jz 29 A|lbound 133|lcase 115|le 30|lt 31|ltrim 131|mod 32|mul 33|ne 34|
neg 35|nop 36|not 37|ntos 117|or 38|pop 104|push% 39 h|push& 40 i|
push! 41 f|push# 42 d|push$ 43 S|pushm2% 44|pushm2& 45|pushm2! 46|
pushm2# 47|pushm1% 48|pushm1& 49|pushm1! 50|pushm1# 51|push0% 52|push0& 53|
push0! 54|push0# 55|push1% 56|push1& 57|push1! 58|push1# 59|push2% 60|
push2& 61|push2! 62|push2# 63|pushrefg 64 V|pushrefl 65 V|readg% 66 V|
readg& 67 V|readg! 68 V|readg# 69 V|readg$ 70 V|readg@ 71 V|readl% 72 V|
readl& 73 V|readl! 74 V|readl# 75 V|readl$ 76 V|readl@ 77 V|readidxg% 78 V O|
readidxg& 79 V O|readidxg! 80 V O|readidxg# 81 V O|readidxg$ 82 V O|
readidxg@ 83 V O|readidxl% 84 V O|readidxl& 85 V O|readidxl! 86 V O|
readidxl# 87 V O|readidxl$ 88 V O|readidxl@ 89 V O|refidx 90|ret 91|retv 92|
rtrim 132|sdbl 113|sign 106|space 112|sub 93|storeg 94 V|storel 95 V|
storeidxg 96 V O|storeidxl 97 V O|storeref 98|strfind 135|strleft 118|
strlen 110|strmid 120|strrep 128|strright 119|swap 107|swapprev 108|
ubound 134|ucase 114|xor 99
"""

KIND_SIZE = {'B': 1, 'h': 2, 'H': 2, 'i': 4, 'A': 4, 'f': 4, 'd': 8, 'S': 2,
             'V': 2, 'O': 2}
KIND_FMT = {'B': '>B', 'h': '>h', 'H': '>H', 'i': '>i', 'A': '>I', 'f': '>f',
            'd': '>d', 'S': '>H', 'V': '>H', 'O': '>H'}

ISA = {}          # mnemonic -> (opcode, kinds)
BY_OPCODE = {}    # opcode -> (mnemonic, kinds)
for _ent in _ISA_TEXT.replace('\n', '').split('|'):
    _p = _ent.split()
    ISA[_p[0]] = (int(_p[1]), tuple(_p[2:]))
    BY_OPCODE[int(_p[1])] = (_p[0], tuple(_p[2:]))
SIZE = {m: 1 + sum(KIND_SIZE[k] for k in ks) for m, (_, ks) in ISA.items()}

# frozen device table (docs/ISA.md "Device operations")
DEVICES = {
    'terminal': (2, {'cls': 1, 'print': 2, 'color': 3, 'view_print': 4,
                     'set_mode': 5, 'width': 6, 'locate': 7, 'input': 8,
                     'inkey': 9}),
    'pcspkr': (3, {'beep': 1, 'play': 2, 'sound': 3}),
    'time': (5, {'get_time': 1}),
    'rng': (6, {'seed': 1, 'rnd': 2}),
    'memory': (7, {'poke': 1, 'peek': 2, 'set_segment': 3,
                   'set_default_segment': 4, 'bsave': 5, 'bload': 6}),
    'data': (8, {'read': 1, 'restore': 2}),
    'fs': (9, {'kill': 1}),
}

BUILTIN_TYPES = ('integer', 'long', 'single', 'double', 'string')
EMPTY = None      # the empty DATA item in this module's item lists


class HarnessOutOfDate(Exception):
    """the listing / instruction table no longer has the shape this model
    was written for"""


def selfcheck_isa():
    """compare the frozen tables with the implementation's; -> list of
    differences (empty = in date)"""
    from qvm.instrs import op_to_instr
    from qvm.cpu import QVM_DEVICES
    diffs = []
    for m, ins in op_to_instr.items():
        if m not in ISA:
            diffs.append(f'instruction {m} unknown to the harness')
            continue
        oc, ks = ISA[m]
        if oc != ins.op_code:
            diffs.append(f'{m}: opcode {ins.op_code} != frozen {oc}')
        sizes = [o.size for o in ins.operands]
        if sizes != [KIND_SIZE[k] for k in ks]:
            diffs.append(f'{m}: operand sizes {sizes} != frozen {ks}')
    for m in ISA:
        if m not in op_to_instr:
            diffs.append(f'instruction {m} no longer exists')
    for d, info in QVM_DEVICES.items():
        if d not in DEVICES:
            diffs.append(f'device {d} unknown to the harness')
            continue
        if info['id'] != DEVICES[d][0] or dict(info['ops']) != DEVICES[d][1]:
            diffs.append(f'device {d}: table differs')
    for d in DEVICES:
        if d not in QVM_DEVICES:
            diffs.append(f'device {d} no longer exists')
    return diffs


# ---------------------------------------------------------------------------
# B: the bytes

class FormatError(Exception):
    pass


def split_sections(binary):
    out = {}
    order = []
    i = 0
    while i < len(binary):
        if i + 5 > len(binary):
            raise FormatError('truncated section header')
        sid = binary[i]
        n = struct.unpack('>I', binary[i + 1:i + 5])[0]
        body = binary[i + 5:i + 5 + n]
        if len(body) != n:
            raise FormatError(f'section {sid} truncated')
        if sid in out:
            raise FormatError(f'section {sid} twice')
        out[sid] = body
        order.append(sid)
        i += 5 + n
    return out, order


def parse_literals(sec):
    """(>H length, cp437 bytes)*"""
    out = []
    i = 0
    while i < len(sec):
        if i + 2 > len(sec):
            raise FormatError('literal header truncated')
        n = struct.unpack('>H', sec[i:i + 2])[0]
        i += 2
        if i + n > len(sec):
            raise FormatError('literal body truncated')
        out.append(sec[i:i + n].decode('cp437'))
        i += n
    return out


def parse_data(sec):
    """>H parts; per part >H items; per item >h length (-1 = empty) + bytes"""
    i = 0
    if len(sec) < 2:
        raise FormatError('data section shorter than its part count')
    nparts = struct.unpack('>H', sec[0:2])[0]
    i = 2
    parts = []
    for _ in range(nparts):
        if i + 2 > len(sec):
            raise FormatError('data part header truncated')
        nitems = struct.unpack('>H', sec[i:i + 2])[0]
        i += 2
        part = []
        for _ in range(nitems):
            if i + 2 > len(sec):
                raise FormatError('data item header truncated')
            n = struct.unpack('>h', sec[i:i + 2])[0]
            i += 2
            if n < 0:
                part.append(EMPTY)
            else:
                if i + n > len(sec):
                    raise FormatError('data item body truncated')
                part.append(sec[i:i + n].decode('cp437'))
                i += n
        parts.append(part)
    if i != len(sec):
        raise FormatError(f'{len(sec) - i} stray bytes after the data parts')
    return parts


def parse_globals(sec):
    if len(sec) != 4:
        raise FormatError('globals section is not 4 bytes')
    return struct.unpack('>I', sec)[0]


def decode_code(code):
    """-> (list of (addr, mnemonic, operand tuple), error or None)"""
    out = []
    i = 0
    n = len(code)
    while i < n:
        ent = BY_OPCODE.get(code[i])
        if ent is None:
            return out, f'unknown opcode {code[i]} at 0x{i:x}'
        m, ks = ent
        j = i + 1
        ops = []
        for k in ks:
            sz = KIND_SIZE[k]
            if j + sz > n:
                return out, f'{m} at 0x{i:x} runs past the end of the code'
            ops.append(struct.unpack(KIND_FMT[k], code[j:j + sz])[0])
            j += sz
        out.append((i, m, tuple(ops)))
        i = j
    return out, None


# ---------------------------------------------------------------------------
# writers (used for the patched modules of the synth family): the format of
# docs/ISA.md as the *reader* side documents it

def write_literals(lits):
    out = bytearray()
    for t in lits:
        b = t.encode('cp437')
        out += struct.pack('>H', len(b)) + b
    return bytes(out)


def write_data(parts):
    out = bytearray(struct.pack('>H', len(parts)))
    for part in parts:
        out += struct.pack('>H', len(part))
        for it in part:
            if it is EMPTY:
                out += struct.pack('>h', -1)
            else:
                b = it.encode('cp437')
                out += struct.pack('>h', len(b)) + b
    return bytes(out)


def join_sections(secs, order):
    return b''.join(bytes([sid]) + struct.pack('>I', len(secs[sid])) + secs[sid] for sid in order)


def patch_module(binary, literals=None, push_index=None, data=None, n_global_cells=None):
    """rewrite sections of a compiled module; push_index: new operand of the
    only push$ of the code section"""
    secs, order = split_sections(binary)
    if literals is not None:
        secs[1] = write_literals(literals)
    if data is not None:
        secs[2] = write_data(data)
    if n_global_cells is not None:
        secs[3] = struct.pack('>I', n_global_cells)
    if push_index is not None:
        code, err = decode_code(secs[4])
        at = [a for a, mn, _ in code if mn == 'push$']
        if err or len(at) != 1:
            raise HarnessOutOfDate('base program of the synth family does not have exactly one push$')
        c = bytearray(secs[4])
        c[at[0] + 1:at[0] + 3] = struct.pack('>H', push_index)
        secs[4] = bytes(c)
    return join_sections(secs, order)


# ---------------------------------------------------------------------------
# L: the listing

_SECTION_NAMES = ('.types', '.literals', '.data', '.globals', '.routines',
                  '.code')
_LIT_RE = re.compile(r'^    (\d+) string "(.*)"$', re.S)


class Listing:
    def __init__(self):
        self.types = {}        # name -> [(field type, field name)]
        self.literals = []     # texts in index order
        self.data_labels = []  # part labels
        self.globals = []      # [(type text, name)]
        self.routines = {}     # name -> [(type text, name)]  (params first)
        self.code = []         # ('label', name) | ('instr', mnemonic, raw operand text)


def _split_decl(line):
    body = line.strip()
    i = body.rfind(' ')
    if i < 0:
        raise HarnessOutOfDate(f'declaration line without a type: {line!r}')
    return body[:i], body[i + 1:]


def parse_listing(text):
    lst = Listing()
    sec = None
    cur = None
    for line in text.split('\n'):
        if line in _SECTION_NAMES:
            sec = line
            cur = None
            continue
        if sec is None or line == '' or (line.startswith(';;;;') and sec != '.literals'):
            continue
        if sec == '.literals':
            m = _LIT_RE.match(line)
            if m is None:
                if line.startswith(';;;;'):
                    continue
                raise HarnessOutOfDate(f'literal line not understood: {line!r}')
            if int(m.group(1)) != len(lst.literals):
                raise HarnessOutOfDate(f'literal index out of sequence: {line!r}')
            lst.literals.append(m.group(2))
        elif sec == '.types':
            if not line.startswith(' '):
                cur = line.rstrip(':')
                lst.types[cur] = []
            else:
                t, n = _split_decl(line)
                lst.types[cur].append((t, n))
        elif sec == '.data':
            if not line.startswith(' '):
                lst.data_labels.append(line.rstrip(':'))
        elif sec == '.globals':
            lst.globals.append(_split_decl(line))
        elif sec == '.routines':
            if not line.startswith(' '):
                cur = line[:-1] if line.endswith(':') else line
                lst.routines[cur] = []
            else:
                lst.routines[cur].append(_split_decl(line))
        elif sec == '.code':
            if not line.startswith(' '):
                if not line.endswith(':'):
                    raise HarnessOutOfDate(f'code line not understood: {line!r}')
                lst.code.append(('label', line[:-1]))
            else:
                body = line.strip()
                i = body.find(' ')
                if i < 0:
                    lst.code.append(('instr', body, ''))
                else:
                    lst.code.append(('instr', body[:i], body[i:].strip()))
    if sec != '.code':
        raise HarnessOutOfDate('listing has no .code section')
    return lst


# ---------------------------------------------------------------------------
# layout model (docs/ISA.md "Frame and global layout")

_ARR_RE = re.compile(r'^([^()]+)\((.*)\)$')


def type_size(tname, types, _depth=0):
    if _depth > 50:
        raise HarnessOutOfDate('recursive record type ' + tname)
    m = _ARR_RE.match(tname)
    if m:
        base, dims = m.group(1), m.group(2).strip()
        if dims == '':
            return 1                       # dynamic array / array parameter: a reference
        n = 1
        rank = 0
        for d in dims.split(','):
            dm = re.match(r'^\s*(-?\d+) to (-?\d+)\s*$', d)
            if dm is None:
                raise HarnessOutOfDate('array bounds not understood: ' + tname)
            n *= int(dm.group(2)) - int(dm.group(1)) + 1
            rank += 1
        return 3 + 2 * rank + n * type_size(base, types, _depth + 1)
    if tname.lower() in BUILTIN_TYPES:
        return 1
    fields = types.get(tname)
    if fields is None:
        for k, v in types.items():
            if k.lower() == tname.lower():
                fields = v
                break
    if fields is None:
        raise HarnessOutOfDate('type not declared in the listing: ' + tname)
    return sum(type_size(ft, types, _depth + 1) for ft, _ in fields)


def is_record(tname, types):
    if _ARR_RE.match(tname):
        return False
    return tname.lower() not in BUILTIN_TYPES


class Layout:
    """slots of globals and of every routine's frame"""

    def __init__(self, lst, nparams):
        """nparams: routine name (lower case) -> number of parameters, from
        the source text; routines missing there are 'unknown'"""
        self.types = lst.types
        self.gslot = {}
        off = 0
        for t, n in lst.globals:
            self.gslot[n] = (off, type_size(t, lst.types))
            off += self.gslot[n][1]
        self.n_global_cells = off
        self.frames = {}        # routine -> dict(p=, l=, slot={name: (off, size)}, record_param=bool) | None
        for r, ents in lst.routines.items():
            np_ = nparams.get(r.lower())
            if r == '_main':
                np_ = 0
            if np_ is None or np_ > len(ents):
                self.frames[r] = None
                continue
            slot = {}
            off = 0
            rec = False
            for i, (t, n) in enumerate(ents):
                sz = 1 if i < np_ else type_size(t, lst.types)
                if i < np_ and is_record(t, lst.types) and type_size(t, lst.types) != 1:
                    rec = True
                slot[n] = (off, sz)
                off += sz
            self.frames[r] = {'p': np_, 'l': off - np_, 'slot': slot,
                              'record_param': rec}

    def global_slot(self, routine, name):
        st = f'_static_{routine}_{name}'
        if st in self.gslot:
            return self.gslot[st]
        return self.gslot.get(name)


# ---------------------------------------------------------------------------
# the source side: routine signatures, DATA statements, DATA tokenizer

_ROUTINE_RE = re.compile(
    r'^\s*(?:\d+\s+|[A-Za-z][A-Za-z0-9_.]*:\s*)?(sub|function)\s+([A-Za-z][A-Za-z0-9_.]*)[%&!#$]?\s*(?:\((.*)\))?\s*(?:static)?\s*(?:\'.*)?$',
    re.I)


def routine_params(src):
    """routine name (lower) -> number of parameters, read off the SUB /
    FUNCTION lines of the source"""
    out = {}
    for line in src.split('\n'):
        m = _ROUTINE_RE.match(line)
        if not m:
            continue
        ptxt = m.group(3)
        if ptxt is None or ptxt.strip() == '':
            n = 0
        else:
            depth = 0
            n = 1
            for c in ptxt:
                if c == '(':
                    depth += 1
                elif c == ')':
                    depth -= 1
                elif c == ',' and depth == 0:
                    n += 1
        out[m.group(2).lower()] = n
    return out


_DATA_KW = re.compile(r'data(?![A-Za-z0-9_.$%&!#])', re.I)
_REM_KW = re.compile(r'rem(?![A-Za-z0-9_.$%&!#])', re.I)


def tokenize_data(text):
    """items of one DATA statement: list of str | EMPTY, or None when the
    text is in the unspecified class (a quote inside an unquoted item, text
    after a closing quote, an unterminated quote)"""
    items = []
    i = 0
    n = len(text)
    while True:
        while i < n and text[i] in ' \t':
            i += 1
        if i < n and text[i] == '"':
            j = text.find('"', i + 1)
            if j < 0:
                return None
            items.append(text[i + 1:j])
            i = j + 1
            while i < n and text[i] in ' \t':
                i += 1
            if i < n and text[i] != ',':
                return None
        else:
            j = i
            while j < n and text[j] != ',':
                if text[j] == '"':
                    return None
                j += 1
            raw = text[i:j]
            body = raw.strip(' \t')
            if body != raw.strip():
                return None          # exotic white space at an item's edge
            items.append(body if body else EMPTY)
            i = j
        if i >= n:
            return items
        i += 1                       # the comma


def source_data(src):
    """all DATA items of a program in source order, or None if some DATA
    statement is in the unspecified class or cannot be located reliably"""
    items = []
    for line in src.split('\n'):
        i = 0
        n = len(line)
        first = True
        while i < n:
            while i < n and line[i] in ' \t':
                i += 1
            if first:
                m = re.match(r'\d+[ \t]+', line[i:])
                if m:
                    i += m.end()
                first = False
            if i >= n:
                break
            if line[i] == "'" or _REM_KW.match(line, i):
                break
            m = _DATA_KW.match(line, i)
            if m:
                j = m.end()
                q = False
                while j < n and (q or line[j] != ':'):
                    if line[j] == '"':
                        q = not q
                    j += 1
                if '\t' in line[m.end():j]:
                    return None          # the parser expands tabs before the compiler sees the text (not C09's business)
                toks = tokenize_data(line[m.end():j])
                if toks is None:
                    return None
                items.extend(toks)
                i = j + 1
                continue
            # some other statement (or a label): skip to the next colon
            q = False
            j = i
            stop = False
            while j < n:
                c = line[j]
                if c == '"':
                    q = not q
                elif not q:
                    if c == ':':
                        break
                    if c == "'":
                        stop = True
                        break
                    if c in 'dD' and _DATA_KW.match(line, j) and \
                            (j == 0 or not (line[j - 1].isalnum() or line[j - 1] in '_.')):
                        return None      # DATA somewhere else than at a statement start
                j += 1
            if stop:
                break
            i = j + 1
    return items


# ---------------------------------------------------------------------------
# D: the disassembler's text

_DIS_RE = re.compile(r'^([0-9a-f]{8,}): (\S+)(?:\s+(.*))?$', re.S)
_DIS_LIT = re.compile(r'^(-?\d+)\s*(?:; "(.*)")?$', re.S)


def _num(tok):
    tok = tok.strip()
    if tok.startswith('0x'):
        return int(tok, 16)
    try:
        return int(tok)
    except ValueError:
        return float(tok)


def parse_disassembly(text):
    """-> list of (addr, mnemonic, operands, literal comment or None)"""
    out = []
    for line in text.split('\n'):
        if line == '':
            continue
        m = _DIS_RE.match(line)
        if m is None:
            raise HarnessOutOfDate(f'disassembly line not understood: {line!r}')
        addr = int(m.group(1), 16)
        mn = m.group(2)
        rest = m.group(3)
        comment = None
        if rest is None or rest.strip() == '':
            ops = ()
        elif mn == 'push$':
            lm = _DIS_LIT.match(rest.strip())
            if lm is None:
                raise HarnessOutOfDate(f'push$ line not understood: {line!r}')
            ops = (int(lm.group(1)),)
            comment = lm.group(2)
        else:
            try:
                ops = tuple(_num(t) for t in rest.split(','))
            except ValueError:
                raise HarnessOutOfDate(f'operands not understood: {line!r}')
        out.append((addr, mn, ops, comment))
    return out


# ---------------------------------------------------------------------------
# resolution of the listing's symbolic operands

def resolve_listing(lst, layout):
    """-> (list of (addr, mnemonic, operand tuple, routine name), problems)
    operands resolved with this module's tables; an operand that cannot be
    resolved is ('?', text) and a problem (kind, detail) is recorded.
    literal operands stay texts."""
    # pass 1: addresses
    addr = 0
    labels = {}
    dup = set()
    for ent in lst.code:
        if ent[0] == 'label':
            if ent[1] in labels:
                dup.add(ent[1])
            labels[ent[1]] = addr
        else:
            sz = SIZE.get(ent[1])
            if sz is None:
                raise HarnessOutOfDate(f'mnemonic {ent[1]} of the listing is unknown to the harness')
            addr += sz
    out = []
    problems = []
    routine = None
    pending_label = None
    addr = 0
    for ent in lst.code:
        if ent[0] == 'label':
            pending_label = ent[1]
            continue
        _, mn, raw = ent
        ks = ISA[mn][1]
        if mn == 'frame':
            lab = pending_label or ''
            if lab.startswith('_sub_'):
                routine = lab[5:]
            elif lab.startswith('_func_'):
                routine = lab[6:]
            else:
                raise HarnessOutOfDate(f'frame instruction after label {lab!r}')
            if routine not in lst.routines:
                raise HarnessOutOfDate(f'routine {routine} not in the .routines section')
        pending_label = None
        if mn == 'push$':
            if len(raw) < 2 or raw[0] != '"' or raw[-1] != '"':
                raise HarnessOutOfDate(f'push$ operand not quoted: {raw!r}')
            ops = [raw[1:-1]]
        else:
            toks = [t.strip() for t in raw.split(',')] if raw else []
            if len(toks) != len(ks):
                raise HarnessOutOfDate(f'{mn} with {len(toks)} operands in the listing')
            ops = []
            frame = layout.frames.get(routine) if routine is not None else None
            base = None
            for k, t in zip(ks, toks):
                if k == 'A':
                    if mn == 'errhand' and t in ('0', '1'):
                        ops.append(int(t))
                    elif t in labels:
                        if t in dup:
                            problems.append(('listing-duplicate-label', t))
                        ops.append(labels[t])
                    else:
                        problems.append(('listing-undefined-label', t))
                        ops.append(('?', t))
                elif k == 'V':
                    scope = 'g' if mn.rstrip('%&!#$@')[-1] == 'g' else 'l'
                    if scope == 'g':
                        s = layout.global_slot(routine, t)
                    elif frame is None:
                        s = 'unknown'
                    else:
                        s = frame['slot'].get(t)
                    if s == 'unknown':
                        ops.append(('unknown', t))
                    elif s is None:
                        problems.append(('listing-undeclared-variable', f'{mn} {t} in {routine}'))
                        ops.append(('?', t))
                    else:
                        ops.append(s[0])
                elif mn == 'io':
                    if len(ops) == 0:
                        d = DEVICES.get(t)
                        if d is None:
                            problems.append(('listing-unknown-device', t))
                            ops.append(('?', t))
                        else:
                            ops.append(d[0])
                            base = d[1]
                    else:
                        o = base.get(t) if base else None
                        if o is None:
                            problems.append(('listing-unknown-device', raw))
                            ops.append(('?', t))
                        else:
                            ops.append(o)
                elif k in 'fd':
                    try:
                        v = float(t)
                    except ValueError:
                        raise HarnessOutOfDate(f'{mn} operand {t!r}')
                    if k == 'f':
                        try:
                            v = struct.unpack('>f', struct.pack('>f', v))[0]
                        except OverflowError:
                            v = ('?', t)
                    ops.append(v)
                else:
                    try:
                        ops.append(int(t))
                    except ValueError:
                        raise HarnessOutOfDate(f'{mn} operand {t!r}')
        out.append((addr, mn, tuple(ops), routine))
        addr += SIZE[mn]
    return out, problems


def same_operand(a, b):
    if isinstance(a, tuple) and a and a[0] == 'unknown':
        return True
    if isinstance(a, float) or isinstance(b, float):
        try:
            fa, fb = float(a), float(b)
        except (TypeError, ValueError):
            return False
        return fa == fb or (fa != fa and fb != fb)
    return a == b
