"""E2 - explicit-state exploration of the real QVM under environment
nondeterminism (VX), and the structural state canonicaliser.

A *node* is a live (machine, env) pair stopped either at a halt or right
before a tick that will consult the environment for an answer the script does
not contain (the tick raised impl.Exhausted and was rolled back by restarting
from the snapshot).  Successors are produced by forking the node
(copy.deepcopy with the module shared), appending one menu answer to the
script and running on to the next choice point.
"""
import collections
import math

from . import impl


# ---------------------------------------------------------------------------
# canonical state

_SKIP_ATTRS = {'module', 'impl', 'breakpoints', 'last_breakpoint', 'devices',
               'device_by_id', 'cpu', 'prev_pc', 'last_trap_kwargs',
               'received_keyboard_interrupt', 'cur_op'}


def _canon_float(x):
    if x != x:
        return 'nan'
    if math.isinf(x):
        return 'inf' if x > 0 else '-inf'
    return float(x).hex()


class Canon:
    """Structural canonical form of a machine: walks attribute dictionaries,
    numbers memory segments in discovery order, prints floats in hex."""

    def __init__(self):
        self.seg_ids = {}
        self.seg_out = []

    def value(self, v):
        if v is None or isinstance(v, (bool, int, str)):
            return v
        if isinstance(v, float):
            return _canon_float(v)
        if isinstance(v, (list, tuple)):
            return [self.value(x) for x in v]
        if isinstance(v, dict):
            return sorted((str(k), self.value(x)) for k, x in v.items())
        if isinstance(v, (set, frozenset)):
            # iteration order of a set is not preserved by deepcopy
            return ['set'] + sorted((self.value(x) for x in v), key=repr)
        if hasattr(v, 'name') and hasattr(v, 'value') and type(v).__module__ != 'builtins' \
                and isinstance(getattr(type(v), '__members__', None), object) \
                and hasattr(type(v), '__members__'):
            return 'enum:' + v.name                          # Enum member
        if hasattr(v, 'cells'):                               # memory segment
            return ('seg', self.segment(v))
        if hasattr(v, 'segment') and hasattr(v, 'index'):     # reference
            return ('ref', self.segment(v.segment), v.index)
        if hasattr(v, 'type') and hasattr(v, 'value'):        # cell
            t = v.type
            return ('cell', getattr(t, 'name', str(t)), self.value(v.value))
        if callable(v):
            return 'fn'
        d = getattr(v, '__dict__', None)
        if d is not None:
            return (type(v).__name__, self.obj(v))
        return repr(v)

    def obj(self, o):
        out = []
        for k in sorted(vars(o)):
            if k in _SKIP_ATTRS or k.startswith('__'):
                continue
            out.append((k, self.value(getattr(o, k))))
        return out

    def segment(self, seg):
        sid = self.seg_ids.get(id(seg))
        if sid is not None:
            return sid
        sid = len(self.seg_ids)
        self.seg_ids[id(seg)] = sid
        slot = [None]
        self.seg_out.append(slot)
        extra = []
        for k in sorted(vars(seg)):
            if k == 'cells':
                continue
            extra.append((k, self.value(getattr(seg, k))))
        slot[0] = (type(seg).__name__, [self.value(c) for c in seg.cells], extra)
        return sid


def canon_machine(machine, with_pc=True, with_devices=True):
    """hashable canonical state of a QvmMachine (memory, stack, frames,
    registers, device cursors).  The event trace is not part of it."""
    c = Canon()
    cpu = machine.cpu
    regs = c.obj(cpu)
    if not with_pc:
        regs = [(k, v) for k, v in regs if k != 'pc']
    devs = []
    if with_devices:
        for name in sorted(cpu.devices):
            devs.append((name, c.obj(cpu.devices[name])))
    return repr((regs, devs, c.seg_out))


def memory_view(machine):
    """memory-only part (operand stack, frames, globals, arrays, device
    cursors) without pc / halt registers: for 'same store' comparisons"""
    c = Canon()
    cpu = machine.cpu
    parts = [('stack', c.value(cpu.stack)),
             ('frame', c.value(cpu.cur_frame)),
             ('globals', c.value(cpu.globals_segment))]
    for name in sorted(cpu.devices):
        parts.append((name, c.obj(cpu.devices[name])))
    return repr((parts, c.seg_out))


# ---------------------------------------------------------------------------
# explorer

class Node:
    __slots__ = ('machine', 'env', 'path', 'pending', 'dev', 'halted', 'outcome',
                 'ticks', 'depth')


class VX:
    """Breadth-first exploration with state hashing.

    menu(node) -> list of (kind, answer, cost) choices at a choice point (the
    first one is the default, cost 0; deviations cost 1).
    check(node, parent, choice) is called on every generated successor;
    it returns a list of violation tuples.
    """

    def __init__(self, module, menu, check=None, horizon=20000, max_depth=4,
                 dev_bound=None, canon=canon_machine, on_empty=None, monitor=None,
                 key_extra=None):
        self.module = module
        self.menu = menu
        self.check = check
        self.horizon = horizon
        self.max_depth = max_depth
        self.dev_bound = dev_bound
        self.canon = canon
        self.on_empty = on_empty or {'input': 'raise', 'inkey': 'raise', 'rnd': 'raise',
                                     'timer': 'raise', 'peek': 'raise'}
        self.monitor = monitor
        self.key_extra = key_extra
        self.states = 0
        self.transitions = 0
        self.dedup = 0
        self.maxdepth_seen = 0
        self.horizon_hits = 0
        self.hostexc = 0
        self.violations = []
        self.leaves = []

    # run a forked machine until it halts or needs an answer
    def _advance(self, machine, env):
        """returns (status, needed_kind): status in halt|need|horizon|hostexc"""
        cpu = machine.cpu
        n = len(self.module.code)
        ticks = 0
        while not cpu.halted:
            if cpu.pc >= n:
                return 'halt', None, ticks, None
            if ticks >= self.horizon:
                return 'horizon', None, ticks, None
            snap = None
            if self._consults(cpu):
                snap = impl.fork_machine(machine)
            try:
                with impl.quiet():
                    if self.monitor is not None:
                        self.monitor.pre(cpu)
                    cpu.tick()
                    if self.monitor is not None:
                        self.monitor.post(cpu)
            except impl.Exhausted as e:
                return 'need', e.kind, ticks, snap
            except (impl.Timeout, KeyboardInterrupt):
                raise
            except BaseException as e:
                return 'hostexc', type(e).__name__, ticks, None
            ticks += 1
        return 'halt', None, ticks, None

    def _consults(self, cpu):
        code = self.module.code
        pc = cpu.pc
        if code[pc] != impl._IO_OPCODE:
            return False
        dev, op = code[pc + 1], code[pc + 2]
        # terminal.input / terminal.inkey / time.get_time / rng.rnd / memory.peek
        return (dev, op) in ((2, 8), (2, 9), (5, 1), (6, 2), (7, 2))

    def _make(self, machine, path, pending, dev, depth):
        """advance a fresh fork; returns Node"""
        env = machine.cpu.devices['terminal'].impl
        st, info, ticks, snap = self._advance(machine, env)
        nd = Node()
        nd.path = path
        nd.dev = dev
        nd.depth = depth
        nd.ticks = ticks
        nd.outcome = None
        if st == 'need':
            # roll back to the snapshot taken before the consulting tick
            nd.machine = snap
            nd.env = snap.cpu.devices['terminal'].impl
            nd.pending = info
            nd.halted = False
        else:
            nd.machine = machine
            nd.env = env
            nd.pending = None
            nd.halted = True
            out = impl.Outcome()
            if st == 'horizon':
                out.end = 'horizon'
                self.horizon_hits += 1
            elif st == 'hostexc':
                out.end = 'hostexc'
                out.exc = info
                self.hostexc += 1
            nd.outcome = impl.finish_outcome(out, machine.cpu, env, self.module)
        return nd

    def root(self, script=None):
        env = impl.Env(script or {}, on_empty=self.on_empty)
        m = impl.new_machine(self.module, env)
        return self._make(m, (), None, 0, 0)

    def key(self, nd):
        k = self.canon(nd.machine)
        # a pending multi-line INPUT keeps its already-consumed lines in the
        # script queue of the snapshot: include the queues
        k += repr(sorted(nd.env.q.items()))
        if self.key_extra is not None:
            k += repr(self.key_extra(nd))
        return k

    def successor(self, nd, choice):
        kind, answer, cost = choice
        m = impl.fork_machine(nd.machine)
        env = m.cpu.devices['terminal'].impl
        env.q.setdefault(kind, []).append(answer)
        return self._make(m, nd.path + ((kind, answer),), None, nd.dev + cost, nd.depth + 1)

    def run(self, root=None):
        root = root or self.root()
        seen = {self.key(root)}
        self.states = 1
        frontier = collections.deque([root])
        if self.check:
            self.violations.extend(self.check(root, None, None) or [])
        while frontier:
            nd = frontier.popleft()
            if nd.halted:
                self.leaves.append(nd)
                continue
            if nd.depth >= self.max_depth:
                continue
            for choice in self.menu(nd):
                if self.dev_bound is not None and nd.dev + choice[2] > self.dev_bound:
                    continue
                ch = self.successor(nd, choice)
                self.transitions += 1
                self.maxdepth_seen = max(self.maxdepth_seen, ch.depth)
                if self.check:
                    self.violations.extend(self.check(ch, nd, choice) or [])
                k = self.key(ch)
                if k in seen:
                    self.dedup += 1
                    continue
                seen.add(k)
                self.states += 1
                frontier.append(ch)
        return self

    def stats(self):
        return {'states': self.states, 'transitions': self.transitions,
                'dedup_hits': self.dedup, 'max_depth': self.maxdepth_seen,
                'horizon_hits': self.horizon_hits, 'host_exceptions': self.hostexc}
