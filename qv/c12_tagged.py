"""C12, family ``tagged`` - stop rules judged against a ground truth that does
not come from the module's debug map.

The debuggees of programs/dbg_tagged are written in a tiny subset of BASIC in
which every PRINT announces a number that encodes its own source position
(``PRINT <line*10 + ordinal on the line>``).  Two independent sources give
the ground truth:

* the SOURCE TEXT, read by the small reference interpreter below (`Model`):
  it executes the subset statement by statement and records, for every
  statement of the source (line, column), at which *announcement counts*
  (number of announcements made so far) control is at that statement;
* the FREE RUN of the compiled module: the sequence of announced numbers.
  The interpreter's announcement sequence must equal it (otherwise the
  harness refuses to run: the model would be wrong, not qbee).

A debugger stop is then observed only through the device trace (how many
announcements have been made) and machine registers (call-frame depth,
halted); ``module.debug_info`` is never consulted.

What is certain and what is not.  A *certain* statement is a simple statement
that cannot be without code and whose first instruction is reached exactly
when the statement starts executing: PRINT, a SUB call, GOSUB, RETURN.  For
every other statement of the subset (block headers, clauses, terminators,
assignments, GOTO, EXIT, END) the property does not say whether it has code of
its own nor which of its instructions a loop-back or a clause jump lands on;
for those the interpreter records the generous set of moments at which control
can be said to be at the statement, and a stop is only required to be one of
them (three-valued oracle)."""
import re

from . import impl
from .dbgdrive import Debuggee, Session, frame_depth

CERTAIN = {'PRINT', 'CALL', 'GOSUB', 'RETURN'}
SIMPLE = {'PRINT', 'CALL', 'GOSUB', 'RETURN', 'LET', 'GOTO', 'EXIT', 'END'}


class ModelError(Exception):
    pass


class _Finished(Exception):
    pass


class St:
    __slots__ = ('idx', 'line', 'col', 'kind', 'text', 'a', 'b', 'c', 'nxt', 'tag', 'mate', 'chain', 'nested')

    def __init__(self, idx, line, col, kind, text):
        self.idx = idx
        self.line = line
        self.col = col
        self.kind = kind
        self.text = text
        self.a = self.b = self.c = None
        self.nxt = idx + 1
        self.tag = None
        self.mate = None       # matching header / terminator
        self.chain = None      # IF/SELECT: indices of the clauses and of the terminator
        self.nested = False    # statement inside a one-line IF

    def where(self):
        return f'{self.line}:{self.col}'


_IDENT = re.compile(r'[A-Za-z][A-Za-z0-9]*[%&]?')
_TOKEN = re.compile(r'\s*(?:(\d+)|([A-Za-z][A-Za-z0-9]*[%&]?)|(<>|<=|>=|[-+*()=<>,]))')


class Model:
    """parser + interpreter of the tagged subset"""

    def __init__(self, src):
        self.src = src
        self.stmts = []
        self.labels = {}
        self.subs = {}         # lower-case name (no suffix) -> (index of header, params)
        self._scan_routines()
        self._parse()
        self._match()
        self._code = {}

    # -- parsing -------------------------------------------------------------
    @staticmethod
    def _name(s):
        return s.rstrip('%&').lower()

    def _scan_routines(self):
        for ln in self.src.split('\n'):
            m = re.match(r'\s*(SUB|FUNCTION)\s+([A-Za-z][A-Za-z0-9]*[%&]?)\s*(?:\((.*)\))?\s*$', ln, re.I)
            if m:
                params = [self._name(p.strip()) for p in (m.group(3) or '').split(',') if p.strip()]
                self.subs[self._name(m.group(2))] = [None, params, m.group(1).upper()]

    def _add(self, line, col, text):
        t = text.strip()
        col += len(text) - len(text.lstrip())
        up = t.upper()
        w = re.match(r'[A-Za-z]+', up)
        w = w.group(0) if w else ''
        st = St(len(self.stmts), line, col, None, t)
        two = ' '.join(up.split()[:2])
        if w == 'PRINT':
            st.kind = 'PRINT'
            st.a = t[5:].strip()
            m = re.match(r'(\d+)', st.a)
            if not m:
                raise ModelError(f'line {line}: PRINT without a leading tag')
            st.tag = int(m.group(1))
        elif w == 'IF':
            m = re.match(r'IF\s+(.*?)\s+THEN\s*$', t, re.I)
            if not m:
                raise ModelError(f'line {line}: one-line IF must be handled by the line parser')
            st.kind, st.a = 'IF', m.group(1)
        elif w == 'ELSEIF':
            m = re.match(r'ELSEIF\s+(.*?)\s+THEN\s*$', t, re.I)
            st.kind, st.a = 'ELSEIF', m.group(1)
        elif up == 'ELSE':
            st.kind = 'ELSE'
        elif two == 'END IF':
            st.kind = 'ENDIF'
        elif w == 'FOR':
            m = re.match(r'FOR\s+(\S+)\s*=\s*(.*?)\s+TO\s+(.*?)(?:\s+STEP\s+(.*))?$', t, re.I)
            st.kind, st.a, st.b, st.c = 'FOR', self._name(m.group(1)), (m.group(2), m.group(3)), m.group(4) or '1'
        elif w == 'NEXT':
            st.kind = 'NEXT'
        elif w == 'DO':
            m = re.match(r'DO(?:\s+(WHILE|UNTIL)\s+(.*))?$', t, re.I)
            st.kind = 'DO'
            if m.group(1):
                st.a, st.b = m.group(1).upper(), m.group(2)
        elif w == 'LOOP':
            m = re.match(r'LOOP(?:\s+(WHILE|UNTIL)\s+(.*))?$', t, re.I)
            st.kind = 'LOOP'
            if m.group(1):
                st.a, st.b = m.group(1).upper(), m.group(2)
        elif w == 'WHILE':
            st.kind, st.a = 'WHILE', t[5:].strip()
        elif w == 'WEND':
            st.kind = 'WEND'
        elif two == 'SELECT CASE':
            st.kind, st.a = 'SELECT', re.sub(r'^SELECT\s+CASE', '', t, flags=re.I).strip()
        elif two == 'CASE ELSE':
            st.kind, st.a = 'CASE', None
        elif w == 'CASE':
            st.kind, st.a = 'CASE', [x.strip() for x in t[4:].split(',')]
        elif two == 'END SELECT':
            st.kind = 'ENDSELECT'
        elif w == 'GOSUB':
            st.kind, st.a = 'GOSUB', t.split()[1].lower()
        elif up == 'RETURN':
            st.kind = 'RETURN'
        elif w == 'GOTO':
            st.kind, st.a = 'GOTO', t.split()[1].lower()
        elif two in ('EXIT FOR', 'EXIT DO'):
            st.kind, st.a = 'EXIT', up.split()[1]
        elif up == 'END':
            st.kind = 'END'
        elif two in ('END SUB', 'END FUNCTION'):
            st.kind = 'ENDSUB'
        elif w in ('SUB', 'FUNCTION'):
            m = re.match(r'(?:SUB|FUNCTION)\s+([A-Za-z][A-Za-z0-9]*[%&]?)', t, re.I)
            st.kind, st.a = 'SUB', self._name(m.group(1))
            self.subs[st.a][0] = st.idx
        elif w == 'CALL':
            m = re.match(r'CALL\s+([A-Za-z][A-Za-z0-9]*)\s*(?:\((.*)\))?\s*$', t, re.I)
            st.kind, st.a, st.b = 'CALL', m.group(1).lower(), self._args(m.group(2) or '')
        else:
            m = re.match(r'([A-Za-z][A-Za-z0-9]*[%&]?)\s*=\s*(.*)$', t)
            if m:
                st.kind, st.a, st.b = 'LET', self._name(m.group(1)), m.group(2)
            else:
                m = re.match(r'([A-Za-z][A-Za-z0-9]*)\s*(.*)$', t)
                if m and m.group(1).lower() in self.subs:
                    st.kind, st.a, st.b = 'CALL', m.group(1).lower(), self._args(m.group(2))
                else:
                    raise ModelError(f'line {line}: statement outside the tagged subset: {t!r}')
        self.stmts.append(st)
        return st

    @staticmethod
    def _args(s):
        out, depth, cur = [], 0, ''
        for ch in s:
            if ch == '(':
                depth += 1
            elif ch == ')':
                depth -= 1
            if ch == ',' and depth == 0:
                out.append(cur.strip())
                cur = ''
            else:
                cur += ch
        if cur.strip():
            out.append(cur.strip())
        return out

    def _parse(self):
        for ln, raw in enumerate(self.src.split('\n'), 1):
            t = raw.strip()
            up = t.upper()
            if not t or t.startswith("'") or up.startswith('REM') or up.startswith('DECLARE '):
                continue
            if '"' in t:
                raise ModelError(f'line {ln}: strings are outside the tagged subset')
            m = re.match(r'([A-Za-z][A-Za-z0-9]*):$', t)
            if m:
                self.labels[m.group(1).lower()] = len(self.stmts)
                continue
            base = len(raw) - len(raw.lstrip())
            m = re.match(r'(IF\s+.*?\s+THEN)(\s+\S.*)$', t, re.I)
            if m:
                # one-line IF: header + one nested simple statement per branch
                hdr = St(len(self.stmts), ln, base, 'IF1', t)
                hdr.a = re.match(r'IF\s+(.*?)\s+THEN$', m.group(1), re.I).group(1)
                self.stmts.append(hdr)
                rest = m.group(2)
                off = base + len(m.group(1))
                parts = re.split(r'(\sELSE\s)', rest, flags=re.I)
                if ':' in rest or len(parts) > 3:
                    raise ModelError(f'line {ln}: one-line IF with several statements per branch')
                a = self._add(ln, off, parts[0])
                a.nested = True
                hdr.b = a.idx
                hdr.c = None
                if len(parts) == 3:
                    b = self._add(ln, off + len(parts[0]) + len(parts[1]), parts[2])
                    b.nested = True
                    hdr.c = b.idx
                end = len(self.stmts)
                for i in range(hdr.idx + 1, end):
                    self.stmts[i].nxt = end
                hdr.nxt = end
                continue
            col = base
            for part in raw.strip('\n')[base:].split(':'):
                if part.strip():
                    self._add(ln, col, part)
                col += len(part) + 1

    def _match(self):
        stack = []
        pairs = {'NEXT': 'FOR', 'LOOP': 'DO', 'WEND': 'WHILE', 'ENDSUB': 'SUB'}
        for st in self.stmts:
            k = st.kind
            if k in ('FOR', 'DO', 'WHILE', 'SUB'):
                stack.append(st)
            elif k in ('IF', 'SELECT'):
                st.chain = []
                stack.append(st)
            elif k in ('ELSEIF', 'ELSE', 'CASE'):
                top = stack[-1]
                if top.kind != ('SELECT' if k == 'CASE' else 'IF'):
                    raise ModelError(f'line {st.line}: {k} outside its block')
                top.chain.append(st.idx)
                st.mate = top.idx
            elif k in ('ENDIF', 'ENDSELECT'):
                top = stack.pop()
                if top.kind != ('IF' if k == 'ENDIF' else 'SELECT'):
                    raise ModelError(f'line {st.line}: unbalanced {k}')
                top.chain.append(st.idx)
                top.mate = st.idx
                st.mate = top.idx
            elif k in pairs:
                top = stack.pop()
                if top.kind != pairs[k]:
                    raise ModelError(f'line {st.line}: unbalanced {k}')
                top.mate = st.idx
                st.mate = top.idx
        if stack:
            raise ModelError('unbalanced blocks')
        self.main_end = min([v[0] for v in self.subs.values()] + [len(self.stmts)])

    # -- expressions ---------------------------------------------------------
    def _compile(self, text):
        c = self._code.get(text)
        if c is None:
            out = []
            pos = 0
            while pos < len(text):
                if text[pos:].strip() == '':
                    break
                m = _TOKEN.match(text, pos)
                if not m:
                    raise ModelError(f'expression outside the tagged subset: {text!r}')
                pos = m.end()
                num, ident, op = m.groups()
                if num:
                    out.append(num)
                elif ident:
                    u = ident.upper()
                    if u in ('AND', 'OR', 'NOT'):
                        out.append(' ' + u.lower() + ' ')
                    elif u == 'MOD':
                        out.append('%')
                    elif self._name(ident) in self.subs and text[pos:].lstrip().startswith('('):
                        out.append(f"F('{self._name(ident)}',")
                        pos = text.index('(', pos) + 1
                    else:
                        out.append(f"V['{self._name(ident)}']")
                else:
                    out.append({'=': '==', '<>': '!='}.get(op, op))
            c = self._code[text] = compile(''.join(out).replace(',)', ')'), '<tagged>', 'eval')
        return c

    def ev(self, text, frame):
        return eval(self._compile(text), {'V': frame, 'F': self._call_function, '__builtins__': {}})

    # -- execution -----------------------------------------------------------
    def run(self, max_visits=20000):
        """-> self ; fills
        ann    [(tag value announced, statement index, depth)]
        visits [(statement index, announcement count, depth, exact)] in order"""
        self.ann = []
        self.visits = []
        self.depth = 0
        self.max_visits = max_visits
        self.end = 'eoc'
        try:
            self._exec(0, _Frame(), self.main_end)
        except _Finished:
            self.end = 'halt'
        self.at = {}
        for i, c, d, exact in self.visits:
            self.at.setdefault(i, []).append(c)
        return self

    def _visit(self, st, exact=True):
        if len(self.visits) >= self.max_visits:
            raise ModelError('the model does not terminate')
        self.visits.append((st.idx, len(self.ann), self.depth, exact))

    def _call_function(self, name, *args):
        return self._call(name, args)

    def _call(self, name, args):
        hdr_i, params, kind = self.subs[name]
        if len(args) != len(params):
            raise ModelError(f'{name}: argument count')
        fr = _Frame()
        for p, a in zip(params, args):
            fr[p] = a
        self.depth += 1
        hdr = self.stmts[hdr_i]
        self._visit(hdr, exact=False)
        self._exec(hdr_i + 1, fr, hdr.mate)
        self._visit(self.stmts[hdr.mate], exact=False)
        self.depth -= 1
        return fr[name]

    def _exec(self, pc, fr, stop):
        """run from statement index `pc` until control arrives at index `stop`"""
        S = self.stmts
        gosubs = []
        arrived_by_jump = False
        while pc != stop:
            if pc >= len(S) or (stop == self.main_end and pc > stop):
                raise ModelError('control leaves the routine')
            st = S[pc]
            k = st.kind
            jumped, arrived_by_jump = arrived_by_jump, False
            if k == 'PRINT':
                self._visit(st)
                v = self.ev(st.a, fr)
                self.ann.append((v, st.idx, self.depth))
                pc = st.nxt
            elif k == 'LET':
                self._visit(st)
                fr[st.a] = self.ev(st.b, fr)
                pc = st.nxt
            elif k == 'CALL':
                self._visit(st)
                self._call(st.a, [self.ev(a, fr) for a in st.b])
                pc = st.nxt
            elif k == 'IF1':
                self._visit(st, exact=False)
                if self.ev(st.a, fr):
                    pc = st.b
                else:
                    pc = st.c if st.c is not None else st.nxt
            elif k == 'IF':
                self._visit(st, exact=False)
                if self.ev(st.a, fr):
                    pc += 1
                else:
                    pc = st.chain[0]
                    arrived_by_jump = True
            elif k == 'ELSEIF':
                self._visit(st, exact=False)
                blk = S[st.mate]
                if not jumped:
                    pc = blk.mate                  # the previous branch has finished
                elif self.ev(st.a, fr):
                    pc += 1
                else:
                    pc = blk.chain[blk.chain.index(st.idx) + 1]
                    arrived_by_jump = True
            elif k == 'ELSE':
                self._visit(st, exact=False)
                pc = pc + 1 if jumped else S[st.mate].mate
            elif k in ('ENDIF', 'ENDSELECT'):
                self._visit(st, exact=False)
                pc += 1
            elif k == 'SELECT':
                self._visit(st, exact=False)
                fr['$sel%d' % st.idx] = self.ev(st.a, fr)
                pc = st.chain[0]
                arrived_by_jump = True
            elif k == 'CASE':
                self._visit(st, exact=False)
                blk = S[st.mate]
                if not jumped:
                    pc = blk.mate
                else:
                    val = fr['$sel%d' % blk.idx]
                    if st.a is None or any(self.ev(x, fr) == val for x in st.a):
                        pc += 1
                    else:
                        pc = blk.chain[blk.chain.index(st.idx) + 1]
                        arrived_by_jump = True
            elif k == 'FOR':
                self._visit(st, exact=False)
                fr[st.a] = self.ev(st.b[0], fr)
                fr['$lim%d' % st.idx] = self.ev(st.b[1], fr)
                fr['$step%d' % st.idx] = self.ev(st.c, fr)
                pc = self._for_test(st, fr)
            elif k == 'NEXT':
                self._visit(st, exact=False)
                hdr = S[st.mate]
                fr[hdr.a] += fr['$step%d' % hdr.idx]
                self._visit(hdr, exact=False)      # the loop test, wherever it lives
                pc = self._for_test(hdr, fr)
            elif k in ('DO', 'WHILE'):
                self._visit(st, exact=False)
                cond = st.a if k == 'WHILE' else st.b
                mode = 'WHILE' if k == 'WHILE' else st.a
                if mode is None or bool(self.ev(cond, fr)) == (mode == 'WHILE'):
                    pc += 1
                else:
                    pc = st.mate + 1
            elif k == 'WEND':
                self._visit(st, exact=False)
                pc = st.mate
            elif k == 'LOOP':
                self._visit(st, exact=False)
                if st.a is None or bool(self.ev(st.b, fr)) == (st.a == 'WHILE'):
                    pc = st.mate
                else:
                    pc += 1
            elif k == 'EXIT':
                self._visit(st)
                want = {'FOR': ('FOR',), 'DO': ('DO',)}[st.a]
                # innermost enclosing loop of that kind
                best = None
                for h in S:
                    if h.kind in want and h.idx < st.idx < h.mate:
                        best = h
                if best is None:
                    raise ModelError(f'line {st.line}: EXIT outside a loop')
                pc = best.mate + 1
            elif k == 'GOSUB':
                self._visit(st)
                gosubs.append(st.nxt)
                pc = self.labels[st.a]
            elif k == 'RETURN':
                self._visit(st)
                if not gosubs:
                    raise ModelError('RETURN without GOSUB')
                pc = gosubs.pop()
            elif k == 'GOTO':
                self._visit(st)
                pc = self.labels[st.a]
            elif k == 'END':
                self._visit(st)
                raise _Finished()
            else:
                raise ModelError(f'line {st.line}: control reaches {k}')

    def _for_test(self, hdr, fr):
        v, lim, step = fr[hdr.a], fr['$lim%d' % hdr.idx], fr['$step%d' % hdr.idx]
        ok = v <= lim if step >= 0 else v >= lim
        return hdr.idx + 1 if ok else hdr.mate + 1


class _Frame(dict):
    def __missing__(self, k):
        return 0


# ---------------------------------------------------------------------------
# the debuggee seen through announcements

def announced(events):
    """the numbers announced so far, from the device trace"""
    txt = ''.join(e[1] for e in events if e[0] == 'print')
    return txt.split()


class Tagged:
    """one tagged debuggee at one optimisation level: module, free run, model"""

    def __init__(self, name, src, opt):
        self.name = name
        self.src = src
        self.opt = opt
        self.dbe = Debuggee(name, src, opt)
        self.model = Model(src).run()
        env = impl.Env({})
        out, m = impl.run_module(self.dbe.module, env, horizon=self.dbe.horizon)
        self.free_events = list(env.events)
        self.free_end = f'trap:{out.trap}' if out.end == 'trap' else out.end
        self.free_ann = announced(env.events)
        if any(e[0] != 'print' for e in env.events):
            raise ModelError(f'{name}: a tagged debuggee only prints')
        mine = [str(v) for v, _, _ in self.model.ann]
        if mine != self.free_ann or self.free_end not in ('halt', 'eoc'):
            raise ModelError(f'{name} O{opt}: the reference interpreter announces {mine}, '
                             f'the free run {self.free_ann} ({self.free_end})')
        # every tag encodes its line: line*10 + ordinal among the PRINTs of the line
        per_line = {}
        for st in self.model.stmts:
            if st.kind == 'PRINT':
                per_line[st.line] = per_line.get(st.line, 0) + 1
                if st.tag != st.line * 10 + per_line[st.line]:
                    raise ModelError(f'{name}: PRINT {st.tag} on line {st.line} is not tagged line*10+ordinal')
        self.n = len(self.free_ann)
        self.nlines = self.dbe.nlines
        self.first_at_offset0 = bool(self.model.stmts) and self.model.stmts[0].line == 1 and \
            self.model.stmts[0].col == 0 and not src[:1].isspace()

    # -- what the source says ------------------------------------------------
    def candidates(self, line):
        """statements that can be 'the first executable statement at or after
        `line`': everything from the line on, in source order, up to and
        including the first certain statement"""
        out = []
        for st in self.model.stmts:
            if st.line < line:
                continue
            out.append(st)
            if st.kind in CERTAIN:
                break
        return out

    def certain_visits(self):
        """[(count at entry, statement)] for every execution of a certain statement"""
        S = self.model.stmts
        return [(c, S[i]) for i, c, d, exact in self.model.visits if S[i].kind in CERTAIN]

    def level(self, cpu):
        """procedure nesting of the machine: call frames, a routine whose frame
        instruction is about to execute counted as entered"""
        d = frame_depth(cpu)
        code = self.dbe.module.code
        if cpu.pc < len(code) and impl.op_at(code, cpu.pc) == 'frame':
            d += 1
        return d


def finished(s):
    return s.finished


def _v(divergence, cmd, expected, observed, **feat):
    f = {'divergence': divergence, 'cmd': cmd}
    f.update(feat)
    return {'features': f, 'expected': expected, 'observed': observed}


def _multiset_le(a, b):
    """sorted list a is a sub-multiset of sorted list b"""
    b = list(b)
    for x in a:
        if x in b:
            b.remove(x)
        else:
            return False
    return True


def run_history(tg, history, probes=1, complete=True):
    """-> (violations, observations, info) ; the judge of one tagged history.
    Commands are executed until the list is exhausted or the program has
    finished and `probes` further commands have been given; info['executed']
    is the history that was really executed (what a replay needs).
    The rules applied depend on the command:

    step      the stop (or the finish) is recorded; at the end of an all-step
              history that ran to completion the coverage rule is evaluated
    next      procedure nesting after <= before unless finished (no user
              breakpoint is ever set in a history that contains `next`)
    break L / delbr L / continue
              the stops of `continue` are compared with the moments at which
              control reaches one of the candidate statements of L
    """
    s = Session(tg.dbe)
    viol = []
    obs = []
    info = {'executed': [], 'classes': {}}

    def cls(k):
        info['classes'][k] = info['classes'].get(k, 0) + 1
    if s.cmd is None:
        return [_v('host-exception', '<start>', 'a debugger over the module', s.exc)], obs, info
    count = lambda: len(announced(s.env.events))
    stops = [count()] if not s.finished else []
    obs.append(('<start>', stops[0] if stops else None, s.finished))
    active = {}              # line -> count at the moment the breakpoint was set
    ever = set()
    cont_stops = []          # (count when continue was issued, count at the stop)
    probed = 0
    executed = info['executed']
    for n, h in enumerate(history):
        kind = h.split()[0]
        c0 = count()
        was_fin = s.finished
        if was_fin:
            if probed >= probes:
                break
            probed += 1
        lvl0 = tg.level(s.cpu) if not was_fin else None
        st = s.do(h)
        executed.append(h)
        if st.exc:
            viol.append(_v('host-exception', kind, 'the command returns', {'exc': st.exc, 'where': st.where}))
            return viol, obs, info
        c1 = count()
        obs.append((h, c1, s.finished))
        if was_fin:
            cls(kind + ':probe-finished')
            if c1 != c0 or not s.finished:
                viol.append(_v('changes-after-finish', kind, 'no device call: the program has finished',
                               {'announced': c1 - c0}))
                return viol, obs, info
            continue
        if kind == 'break':
            L = int(h.split()[1])
            active[L] = c0
            ever.add(L)
            if c1 != c0:
                viol.append(_v('bp-command-changes-state', kind, 'no device call', {'announced': c1 - c0}))
        elif kind == 'delbr':
            active.pop(int(h.split()[1]), None)
            if c1 != c0:
                viol.append(_v('bp-command-changes-state', kind, 'no device call', {'announced': c1 - c0}))
        elif kind == 'step':
            if not s.finished:
                stops.append(c1)
        elif kind == 'next':
            if not s.finished and not active:
                lvl1 = tg.level(s.cpu)
                cls('next:over-a-call' if c1 - c0 > 1 else 'next:plain')
                if lvl1 > lvl0:
                    viol.append(_v('next-enters-callee', kind,
                                   {'call_nesting_relative_to_start': '<= 0'},
                                   {'call_nesting_relative_to_start': lvl1 - lvl0, 'announced_so_far': c1}))
        elif kind == 'continue':
            if not s.finished:
                cont_stops.append((c0, c1))
                if not active:
                    div = 'deleted-bp-fired' if ever else 'bp-spurious'
                    viol.append(_v(div, kind, 'runs to the end: no breakpoint is set',
                                   {'stops_after_announcements': c1, 'debugger_said': st.out.strip()[:120]}))
                    return viol, obs, info
            elif ever and not active:
                cls('continue:finished-after-delbr')
    if complete and not s.finished and len(executed) == len(history) and not viol:
        viol.append(_v('never-finishes', history[-1].split()[0] if history else '<start>',
                       'the program finishes: every command of the tail makes progress',
                       {'commands': len(history), 'announcements_made': count(),
                        'statement_visits_of_the_model': len(tg.model.visits)}))
    history = executed
    all_step = bool(history) and all(h == 'step' for h in history)
    # ---- transparency at the end
    if s.finished:
        if list(s.env.events) != tg.free_events:
            viol.append(_v('trace', history[-1].split()[0] if history else '<start>',
                           impl.jsonable(tg.free_events), impl.jsonable(s.env.events)))
        elif s.end_kind() != tg.free_end:
            viol.append(_v('outcome', history[-1].split()[0] if history else '<start>', tg.free_end, s.end_kind()))
    else:
        got = announced(s.env.events)
        if got != tg.free_ann[:len(got)]:
            viol.append(_v('trace', history[-1].split()[0], tg.free_ann[:len(got)], got))
    # ---- step^k to completion: every certain statement is stopped in, in order
    if all_step and s.finished and not viol:
        need = {}
        for c, stx in tg.certain_visits():
            need.setdefault(c, []).append(stx)
        have = {}
        for c in stops:
            have[c] = have.get(c, 0) + 1
        cls('step:coverage-judged')
        for c in sorted(need):
            if have.get(c, 0) < len(need[c]):
                # which one is missing cannot be told when several share the
                # count; name the first
                stx = need[c][0]
                first = c == 0 and stx.idx == tg.model.visits[0][0]
                viol.append(_v('simple-statement-not-stopped-in', 'step',
                               {'stops_with_%d_announcements_made' % c: '>= %d' % len(need[c]),
                                'statements': ['%s %r' % (x.where(), x.text) for x in need[c]]},
                               {'stops': have.get(c, 0), 'all_stops': stops[:60]},
                               stmt_kind=stx.kind,
                               first_statement_of_program=bool(first)))
                break
    # ---- one line breakpoint, continue^k to completion
    lines = [int(h.split()[1]) for h in history if h.startswith('break ')]
    deletes = [h for h in history if h.startswith('delbr ')]
    if len(lines) == 1 and not deletes and s.finished and not viol and \
            all(h.split()[0] in ('step', 'break', 'continue') for h in history):
        L = lines[0]
        bi = history.index(f'break {L}')
        if all(h == 'step' for h in history[:bi]) and all(h == 'continue' for h in history[bi + 1:]):
            c_set = active.get(L, 0)
            O = [c1 for _, c1 in cont_stops]
            v, how = judge_breakpoint(tg, L, c_set, O)
            cls('break:' + how)
            if v:
                viol.append(v)
    return viol, obs, info


def judge_breakpoint(tg, L, c_set, O):
    """`break L` was given when `c_set` announcements had been made, then
    `continue` until the program finished; O = announcement counts at the
    stops.  Accepts iff some candidate statement of L explains O."""
    cands = tg.candidates(L)
    why = []
    for st in cands:
        at = [c for c in tg.model.at.get(st.idx, []) if c >= c_set]
        if st.kind in CERTAIN:
            # exact: every arrival after the breakpoint was set; an arrival
            # with the same count as the moment of setting may already have
            # happened (control stands at the statement) or not
            strict = [c for c in at if c > c_set]
            same = [c for c in at if c == c_set]
            ok = any(O == same[:k] + strict for k in range(len(same), -1, -1))
            why.append({'if_target_is': '%s %r' % (st.where(), st.text), 'stops_expected_after_announcements':
                        strict if not same else {'either': [strict, same + strict]}})
        else:
            ok = _multiset_le(O, at)
            why.append({'if_target_is': '%s %r' % (st.where(), st.text),
                        'stops_allowed_after_announcements_any_subset_of': at})
        if ok:
            return None, ('certain' if st.kind in CERTAIN else 'uncertain') + \
                ('-explains-stops' if O else '-explains-no-stop')
    if not cands and not O:
        return None, 'no-candidate-no-stop'
    tgt = cands[-1] if cands and cands[-1].kind in CERTAIN else None
    # classify from the input side: what kind of line carries the breakpoint
    first = cands[0] if cands else None
    return _v('bp-stops-wrong', 'continue',
              why if cands else 'no stop: no statement at or after the line',
              {'stops_after_announcements': O,
               'announcements_of_the_free_run': tg.free_ann[:80]},
              line_kind=(first.kind if first is not None and first.line == L else 'NO-STATEMENT'),
              certain_target=tgt.kind if tgt is not None else None), 'unexplained'
