"""C03 (B) - run-time monitor for `impl.run_module(..., monitor=...)`.

On every tick of a concrete run it checks the concrete invariants of the
property (pc on an instruction start, no machine-level trap, type of every
written cell = declared type of the slot, stack depth at statement starts)
and the *conformance of the type-state model*: the abstract state is carried
along the run with the same transfer function the exhaustive exploration
uses, and the concrete post-state must be matched by one of its abstract
successors.  A mismatch is a failure of the harness's model (reported as
`conformance`), not of the property.
"""
from . import c03_ts as ts
from . import impl

TCH = {'INTEGER': '%', 'LONG': '&', 'SINGLE': '!', 'DOUBLE': '#', 'STRING': '$',
       'REFERENCE': '@', 'FIXED_STRING': 'F'}
MACHINE_FAULTS = impl.MACHINE_FAULTS
HOST_KINDS = ('AttributeError', 'TypeError', 'KeyError', 'IndexError', 'AssertionError',
              'NameError', 'UnboundLocalError')


LOCAL_ACCESS = frozenset(
    [b + t for b in ('readl', 'readidxl') for t in '%&!#$@'] +
    ['storel', 'storeidxl', 'pushrefl', 'initarrl'])


def tch(cell):
    return TCH.get(getattr(cell.type, 'name', None), '?')


class Act:
    """one routine activation as seen by the monitor"""
    __slots__ = ('routine', 'base', 'frame', 'gosubs', 'cont')

    def __init__(self, routine, base, frame, cont):
        self.routine = routine
        self.base = base        # index of the routine's return address in cpu.stack
        self.frame = frame
        self.gosubs = []        # stack indices of active GOSUB return addresses
        self.cont = cont        # (ret_pc, rest_stack) of the abstract caller


class Monitor:
    def __init__(self, model, check_visited=True):
        self.m = model
        self.check_visited = check_visited and bool(model.visited)
        self.abs = (0, ())
        self.acts = [Act(None, -1, None, None)]
        self.viol = []          # property violations (dicts)
        self.conf = []          # conformance failures of the abstraction (dicts)
        self.ticks = 0
        self.conf_ticks = 0     # ticks whose post-state was matched against step#
        self.stmt_checks = 0
        self.store_checks = 0
        self.dispatches = 0
        self.resynced = False
        self.unspecified = False
        self.dead = False       # stop checking after the first violation
        self.heap = {}          # id(segment) -> (segment, element descriptor)
        self._memo = {}
        self._pre = None
        self._popped_cont = None
        self._own_ra = None
        self.ret_with_gosub_ok = 0   # returns that correctly dropped active GOSUBs

    # -- helpers ---------------------------------------------------------
    def _v(self, kind, pc, detail, **kw):
        ent = self.m.ins.get(pc)
        d = dict(kind=kind, pc=pc, op=ent[0] if ent else '?', detail=detail,
                 after_dispatch=self.dispatches > 0)
        d.update(kw)
        self.viol.append(d)
        self.dead = True

    def _c(self, what, pc, detail):
        if len(self.conf) < 5:
            ent = self.m.ins.get(pc)
            self.conf.append(dict(what=what, pc=pc, op=ent[0] if ent else '?', detail=detail))
        self.abs = None

    def _match(self, astack, cstack):
        if len(astack) != len(cstack):
            return False
        for a, c in zip(astack, cstack):
            k = ts.ty(a)
            t = tch(c)
            if k in ('RA', 'ra', 'rc'):
                if t != '&':
                    return False
                if k != 'RA' and a[1] != c.value:
                    return False
            elif k != t:
                return False
            elif isinstance(a, tuple) and k in '%&' and a[1] != c.value:
                return False
        return True

    def _rebuild(self, cpu):
        """abstract stack read off the concrete one (after an error dispatch)"""
        act = self.acts[-1]
        out = []
        for i in range(max(act.base, 0), len(cpu.stack)):
            c = cpu.stack[i]
            if i == act.base:
                out.append('RA')
            elif i in act.gosubs:
                out.append(('ra', c.value))
            else:
                t = tch(c)
                out.append(('@', ('?',)) if t == '@' else t)
        return tuple(out)

    def _decl_ok(self, decl, cell):
        if cell is None:
            return True
        t = tch(cell)
        k = decl[0]
        if k == 'v':
            return t == decl[1]
        if k == 'h':
            return t == '&'
        if k == 'h0':
            return False
        if k in ('dyn', 'par'):
            return t == '@'
        return True

    def _scan(self, cpu, pc):
        """every cell of the current frame and of the global area holds a
        value of its declared type"""
        act = self.acts[-1]
        segs = []
        if act.routine is not None and act.frame is not None and act.routine.ok:
            segs.append(('frame of ' + act.routine.name, act.frame, act.routine.cells))
        if self.m.gcells is not None:
            segs.append(('global area', cpu.globals_segment, self.m.gcells))
        for name, seg, decl in segs:
            cells = seg.cells
            n = min(len(decl), len(cells))
            if n > 600:
                continue
            for i in range(n):
                c = cells[i]
                if c is not None and not self._decl_ok(decl[i], c):
                    self._v('cell-type', pc,
                            f'{name}: cell {i} declared {decl[i]} holds {tch(c)}')
                    return

    # -- the two hooks -----------------------------------------------------
    def pre(self, cpu):
        if self.dead:
            return
        pc = cpu.pc
        m = self.m
        ent = m.ins.get(pc)
        if ent is None:
            self._v('pc-not-instruction-start', pc, 'pc is not the start of an instruction')
            return
        a = self.abs
        acts = viol = None
        if a is not None:
            if a[0] != pc:
                self._c('pc', pc, f'abstract pc {a[0]} but machine pc {pc}')
            else:
                r = self._memo.get(a)
                if r is None:
                    r = m.step(a[0], a[1])
                    self._memo[a] = r
                acts, viol = r
        op = ent[0]
        act = self.acts[-1]
        self._own_ra = None
        if op in ('ret', 'retv') and 0 <= act.base < len(cpu.stack):
            # where this return has to land: the routine's own return
            # address, whatever GOSUB return addresses lie above it
            self._own_ra = (cpu.stack[act.base].value, act.base, len(act.gosubs),
                            getattr(cpu.cur_frame, 'prev_frame', None))
        if op in LOCAL_ACCESS and act.routine is not None:
            cr = m.routine_at(pc)
            if cr is not None and cr is not act.routine:
                self._v('foreign-frame-access', pc,
                        f'{op} in the code of {cr.name} executes on the frame of '
                        f'{act.routine.name}')
                return
        st = cpu.stack
        top = st[-1] if st else None
        self._pre = (pc, ent, acts, viol, len(st), cpu.error_handler_active,
                     cpu.trap_target, cpu.cur_frame, top)

    def post(self, cpu):
        if self.dead or self._pre is None:
            return
        pc, ent, acts, viol, depth0, hact0, ttarget0, frame0, top0 = self._pre
        self._pre = None
        self.ticks += 1
        m = self.m
        op, args, size = ent
        act = self.acts[-1]
        # ---- traps ----------------------------------------------------
        if cpu.halted:
            hr = getattr(cpu.halt_reason, 'name', str(cpu.halt_reason))
            if hr == 'TRAP':
                name = getattr(cpu.last_trap, 'name', str(cpu.last_trap))
                if name in MACHINE_FAULTS:
                    self._v('machine-fault', pc, f'trap {name}', trap=name,
                            predicted=bool(viol))
                self.dead = True
                return
            if self.abs is not None and acts is not None and not viol:
                want = ('halt',) if hr == 'INSTRUCTION' else ('end',)
                if want not in acts and not (hr == 'END_OF_CODE' and acts):
                    self._c('halt', pc, f'machine halted ({hr}), model expects {acts}')
                else:
                    self.conf_ticks += 1
            self.dead = True
            return
        npc = cpu.pc
        dispatched = False
        if not hact0 and cpu.error_handler_active:
            dispatched = True
        # ---- shadow activations (concrete) ------------------------------
        if op == 'frame':
            cont = None
            if acts and not viol and acts[0][0] == 'enter':
                cont = (acts[0][2], acts[0][3])
            self.acts.append(Act(m.frame_of.get(pc), len(cpu.stack) - 1, cpu.cur_frame, cont))
        elif op in ('ret', 'retv') and not dispatched:
            own = self._own_ra
            if own is not None:
                ra, base, ngos, prev = own
                want_depth = base + (1 if op == 'retv' else 0)
                if npc != ra or len(cpu.stack) != want_depth or cpu.cur_frame is not prev:
                    self._v('ret-with-active-gosub' if ngos else 'bad-return', pc,
                            f'{op} with {ngos} active GOSUB(s): lands at pc {npc} with '
                            f'{len(cpu.stack)} stack cells, the routine\'s own return address is '
                            f'{ra} and {want_depth} cells belong to the caller'
                            + ('' if cpu.cur_frame is prev else '; wrong frame restored'))
                    return
                if ngos:
                    self.ret_with_gosub_ok += 1
            if cpu.cur_frame is not frame0 and len(self.acts) > 1:
                self._popped_cont = self.acts.pop().cont
        elif op == 'call' and not dispatched and npc not in m.frame_of:
            act.gosubs.append(len(cpu.stack) - 1)
        elif op in ('ijmp', 'pop') and not dispatched:
            if act.gosubs and act.gosubs[-1] == len(cpu.stack):
                act.gosubs.pop()
            elif len(cpu.stack) == act.base:
                # RETURN without GOSUB: unspecified (see c03_ts), stop judging
                self.unspecified = True
                self.dead = True
                return
        act = self.acts[-1]
        # ---- written cells ----------------------------------------------
        if not dispatched:
            self._stores(cpu, pc, op, args, frame0, top0)
            if self.dead:
                return
        # ---- conformance of the abstraction -------------------------------
        if dispatched:
            self.dispatches += 1
            self.abs = (npc, self._rebuild(cpu))
            self.resynced = True
        elif self.abs is not None and acts is not None:
            if viol:
                # the model itself says this step is unsafe; nothing to conform to
                self.abs = None
            else:
                self._advance(cpu, pc, op, acts, ttarget0)
        # ---- statement boundary -------------------------------------------
        if m.stmt_starts is not None and npc in m.stmt_starts and not self.dead \
                and npc not in m.frame_of:
            self.stmt_checks += 1
            want = act.base + 1 + len(act.gosubs)
            if len(cpu.stack) != want:
                self._v('stmt-depth', npc,
                        f'statement starts with {len(cpu.stack)} stack cells, '
                        f'{want} expected (routine entry {act.base + 1} + '
                        f'{len(act.gosubs)} GOSUB)', excess=len(cpu.stack) - want)
                return
            self._scan(cpu, npc)
            if self.resynced and self.abs is not None and not ts.shape(self.abs[1]):
                self.resynced = False

    def _advance(self, cpu, pc, op, acts, ttarget0):
        m = self.m
        npc = cpu.pc
        act = self.acts[-1]
        st = cpu.stack
        for a in acts:
            k = a[0]
            if k == 'next':
                if a[1] == npc and self._match(a[2], st[max(act.base, 0):]):
                    self.abs = (a[1], a[2])
                    self._visited_check(pc)
                    self.conf_ticks += 1
                    return
            elif k == 'enter':
                if npc == a[1] + m.ins[a[1]][2] and self._match(('RA',), st[act.base:]):
                    self.abs = (npc, ('RA',))
                    self.conf_ticks += 1
                    return
            elif k == 'exit':
                # self.acts was already popped: the callee's continuation is
                # in the popped record; recover it from the abstract caller
                cont = self._popped_cont
                if cont is None:
                    self.abs = None
                    return
                ret, rest = cont
                new = rest if a[1] == 'ret' else rest + (a[1][1],)
                if npc == ret and self._match(new, st[max(act.base, 0):]):
                    self.abs = (ret, new)
                    self._visited_check(pc)
                    self.conf_ticks += 1
                    return
            elif k in ('resume', 'bound'):
                # RESUME: the target is data (the failing statement); GOSUB
                # beyond the exploration bound: the model does not follow
                self.abs = (npc, self._rebuild(cpu))
                self.resynced = True
                self.conf_ticks += 1
                return
        if ttarget0 == 'next' and cpu.trap_target == 'next':
            # ON ERROR RESUME NEXT: a trap in this tick moved pc to the end of
            # the statement; nothing else marks it
            self.dispatches += 1
            self.abs = (npc, self._rebuild(cpu))
            self.resynced = True
            return
        self._c('step', pc,
                f'after {op}: machine at pc {npc} with stack '
                f'{[tch(c) for c in st[max(act.base, 0):]]}, model allows '
                f'{[(a[0],) + tuple(a[1:2]) + ((m._shows(a[2]),) if a[0] == "next" else ()) for a in acts]}')

    def _visited_check(self, pc):
        if self.check_visited and not self.resynced and self.abs not in self.m.visited \
                and not self.m.stats.get('gosub_bound_hits'):
            self._c('unvisited', pc,
                    f'abstract state {self.abs[0]} {self.m._shows(self.abs[1])} was not '
                    f'reached by the exhaustive exploration')

    def _stores(self, cpu, pc, op, args, frame0, top0):
        m = self.m
        act = self.acts[-1]
        if op in ('storel', 'storeidxl', 'storeg', 'storeidxg'):
            idx = args[0] + (args[1] if len(args) > 1 else 0)
            if op[-1] == 'l':
                seg = frame0
                # frame0 belongs to the activation that executed the store
                decl = act.routine.cells if act.routine is not None and act.routine.ok \
                    and act.frame is frame0 else None
                where = 'frame'
            else:
                seg = cpu.globals_segment
                decl = m.gcells
                where = 'global area'
            if seg is None or decl is None or not (0 <= idx < len(decl)) or idx >= len(seg.cells):
                return
            c = seg.cells[idx]
            self.store_checks += 1
            if c is not None and not self._decl_ok(decl[idx], c):
                self._v('cell-type', pc, f'{op}: {where} cell {idx} declared {decl[idx]} '
                                         f'now holds {tch(c)}')
                return
            if c is not None and decl[idx][0] == 'dyn' and tch(c) == '@':
                seg2 = getattr(c.value, 'segment', None)
                if seg2 is not None:
                    self.heap[id(seg2)] = (seg2, decl[idx][1])
        elif op == 'storeref' and top0 is not None and tch(top0) == '@':
            ref = top0.value
            seg = getattr(ref, 'segment', None)
            idx = getattr(ref, 'index', None)
            if seg is None or idx is None or not (0 <= idx < len(seg.cells)):
                return
            c = seg.cells[idx]
            if c is None:
                return
            decl = None
            where = None
            if seg is cpu.globals_segment:
                if m.gcells is not None and idx < len(m.gcells):
                    decl, where = m.gcells[idx], 'global area'
            else:
                for a in self.acts:
                    if a.frame is seg:
                        if a.routine is not None and a.routine.ok and idx < len(a.routine.cells):
                            decl, where = a.routine.cells[idx], 'frame of ' + a.routine.name
                        break
                else:
                    h = self.heap.get(id(seg))
                    if h is not None and h[0] is seg:
                        try:
                            rank = seg.cells[1].value
                            hdr = 3 + 2 * rank
                            e = h[1]
                            flat = (e,) if isinstance(e, str) else m.lay.flat(e[1])
                            decl = ('h',) if idx < hdr else ('v', flat[(idx - hdr) % len(flat)])
                            where = 'dynamic array'
                        except Exception:
                            decl = None
            if decl is None:
                return
            self.store_checks += 1
            if decl[0] != 'v' or not self._decl_ok(decl, c):
                self._v('cell-type', pc, f'storeref: {where} cell {idx} declared {decl} '
                                         f'now holds {tch(c)}')


