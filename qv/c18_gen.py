"""C18 - program generator and response-line alphabets.

A program = declarations, the INPUT statement under test, a typed PRINT of its
targets, then a fixed continuation (FOR loop, GOSUB routine that CALLs a SUB
containing a second INPUT, RETURN, final prints).  `specs` describes the INPUT
statements in execution order for the acceptance model (qv.ref.inputacc)."""
import itertools

from .ref import inputacc as acc

TYPES = acc.TYPES
SFX = acc.SUFFIX
ARR = {'INTEGER': 'xi', 'LONG': 'xl', 'SINGLE': 'xs', 'DOUBLE': 'xd', 'STRING': 'xt'}
FLD = {'INTEGER': 'fi', 'LONG': 'fl', 'SINGLE': 'fs', 'DOUBLE': 'fd', 'STRING': 'ft'}
REC = ['ra', 'rb', 'rc']
PROMPT = 'a, b'
PROMPT_FORMS = ['none', 'semi', 'comma']
EMPTY_PROMPT_FORMS = ['semi0', 'comma0']
KINDS = ['scalar', 'elem', 'field']
PLACES = ['main', 'gosub', 'sub']

TYPE_BLOCK = ['TYPE rec', 'fi AS INTEGER', 'fl AS LONG', 'fs AS SINGLE', 'fd AS DOUBLE',
              'ft AS STRING', 'END TYPE']

# second INPUT (inside SUB sb, called from the GOSUB routine)
SPEC2 = {'prompt': 'n', 'sep': ',', 'same_line': True, 'types': ('INTEGER', 'STRING')}
GOOD2 = '5,z'
MENU2 = ['5,z', 'x,z', '5', '40000,z']


def target(kind, pos, typ):
    if kind == 'mixed':
        kind = KINDS[pos % 3]
    if kind == 'scalar':
        return f'u{pos + 1}{SFX[typ]}'
    if kind == 'elem':
        return f'{ARR[typ]}({pos + 1})'
    return f'{REC[pos]}.{FLD[typ]}'


def decls(kind, types):
    out = []
    kinds = [KINDS[p % 3] if kind == 'mixed' else kind for p in range(len(types))]
    if 'elem' in kinds:
        for t in TYPES:
            if any(k == 'elem' and tt == t for k, tt in zip(kinds, types)):
                out.append(f'DIM {ARR[t]}(3) AS {t}')
    for p, k in enumerate(kinds):
        if k == 'field':
            out.append(f'DIM {REC[p]} AS rec')
    return out


def _prompt_of(form):
    """(literal text or None, separator or None) of a prompt form name;
    semi0 / comma0 use the empty literal"""
    if form == 'none':
        return None, None
    return (PROMPT if not form.endswith('0') else ''), (';' if form.startswith('semi') else ',')


def input_stmt(form, same_line, targets):
    s = 'INPUT '
    if same_line:
        s += '; '
    text, sep = _prompt_of(form)
    if text is not None:
        s += f'"{text}"{sep} '
    return s + ', '.join(targets)


def spec_of(form, same_line, types):
    text, sep = _prompt_of(form)
    return {'prompt': text, 'sep': sep, 'same_line': bool(same_line), 'types': tuple(types)}


def program(place, kind, form, same_line, types):
    """-> (source text, [spec1, spec2])"""
    types = tuple(types)
    tg = [target(kind, p, t) for p, t in enumerate(types)]
    uses_rec = any('.' in t for t in tg)
    d = decls(kind, types)
    stmt = input_stmt(form, same_line, tg)
    show = 'PRINT ' + '; '.join(tg)
    lines = []
    if uses_rec:
        lines += TYPE_BLOCK
    if place == 'main':
        lines += d + [stmt, show]
    elif place == 'gosub':
        lines += d + ['GOSUB gi']
    else:
        lines += ['CALL si']
    lines += ['FOR i% = 1 TO 2', 'c% = c% + i%', 'NEXT', 'GOSUB gs']
    if place != 'sub':
        lines += [show]
    lines += ['PRINT c%; i%', 'END']
    lines += ['gs:', 'c% = c% + 10', 'CALL sb(c%)', 'PRINT "g"; c%', 'RETURN']
    if place == 'gosub':
        lines += ['gi:', stmt, show, 'RETURN']
    lines += ['SUB sb (n%)', 'INPUT ; "n", w%, z$', 'PRINT w%; z$', 'PRINT "s"; n%', 'END SUB']
    if place == 'sub':
        lines += ['SUB si'] + d + [stmt, show, 'END SUB']
    return '\n'.join(lines) + '\n', [spec_of(form, same_line, types), dict(SPEC2)]


# ---------------------------------------------------------------------------
# response-line alphabets, one per arity (16 lines each in the quick tier)

ALPHA_Q = {
    1: ['1', '', '1,2', 'x', '32768', '40000', '1e39', ' 7 ', '"q"', '1_0', '1e2',
        '&H10', ' .5', '-', '2147483648', '1e309'],
    2: ['1,2', '1', '1,2,3', '', ',', 'x,2', '1,x', '32768,2', '1,1e39', ' 7 , 8 ',
        '"a,b",2', '1_0,2', '1,1e2', '&H10, .5', '1,-', '1e309,40000'],
    3: ['1,2,3', '1,2', '1,2,3,4', '', '1,,3', 'x,2,3', '1,x,3', '1,2,x', '32768,2,3',
        '1,40000,3', '1,2,1e39', ' 7 , 8 , 9 ', '1_0,2,3', '1,1e2,&H10', '1,2,-',
        '"q",2, .5'],
}
EXTRA_T = {
    1: ['nan', 'inf', '-32768', '1.5', '+3', '1d2', '5%', '1 2', '-2147483649', '1e-50',
        '١٢', '0x10'],
    2: ['1,nan', 'inf,2', '-32768,2147483647', '1.5,-1.5e-3', '+3,+4', '1,1e309', '1,1_0',
        '2147483648,1', '1 ,2', '1;2', '1,2,', 'abc def,ghi'],
    3: ['1,2,nan', '1,2,1e309', '1,2,1_0', '-32768,2147483647,3.5', '1,2,32768',
        '1,2,2147483648', '1,-,3', '1,2,', ',,', '1, 2 ,3', 'a b,c,d', '1e2,1e2,1e2'],
}
GOOD = {1: '1', 2: '1,2', 3: '1,2,3'}


def alphabet(tier, n):
    a = list(ALPHA_Q[n])
    if tier == 'thorough':
        a += EXTRA_T[n]
    return a


def type_lists(tier):
    singles = [(t,) for t in TYPES]
    pairs = list(itertools.product(TYPES, repeat=2))
    if tier == 'quick':
        triples = list(itertools.product(('INTEGER', 'SINGLE', 'STRING'), repeat=3))
    else:
        triples = list(itertools.product(TYPES, repeat=3))
    return singles, pairs, triples
