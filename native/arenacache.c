/* Performance shim for the harness processes only (never loaded into qbee's
 * own tools): CPython >= 3.11 allocates the interpreter's frame stack in 16 KiB
 * chunks with mmap and returns each chunk with munmap as soon as it is empty.
 * pyparsing's deep recursion crosses chunk boundaries thousands of times per
 * compile, and on this VM munmap costs ~0.5 ms when 16 processes do it at
 * once.  This arena allocator keeps a small free list of 16 KiB chunks (zeroed
 * on reuse, so callers see exactly what a fresh mmap would give them). */
#define _GNU_SOURCE
#include <stddef.h>
#include <string.h>
#include <dlfcn.h>
#include <sys/mman.h>

typedef struct {
    void *ctx;
    void *(*alloc)(void *ctx, size_t size);
    void (*free)(void *ctx, void *ptr, size_t size);
} ArenaAllocator;

#define CHUNK 16384
#define NCACHE 256
static void *cache[NCACHE];
static int ncache = 0;

static void *a_alloc(void *ctx, size_t size) {
    if (size == CHUNK && ncache > 0) {
        void *p = cache[--ncache];
        memset(p, 0, CHUNK);
        return p;
    }
    void *p = mmap(NULL, size, PROT_READ | PROT_WRITE,
                   MAP_PRIVATE | MAP_ANONYMOUS, -1, 0);
    return p == MAP_FAILED ? NULL : p;
}

static void a_free(void *ctx, void *ptr, size_t size) {
    if (size == CHUNK && ncache < NCACHE) {
        cache[ncache++] = ptr;
        return;
    }
    munmap(ptr, size);
}

int arenacache_install(void) {
    void (*set)(ArenaAllocator *) = dlsym(RTLD_DEFAULT, "PyObject_SetArenaAllocator");
    if (!set) return -1;
    ArenaAllocator a = {NULL, a_alloc, a_free};
    set(&a);
    return 0;
}
