#!/usr/bin/env python3
"""Ledger bookkeeping (never used by a check at run time).

  tools_ledger.py status [ID ...]       open entries and whether the last run of the check hit them
                                        (evidence/<ID>.json coverage.known_findings_hit)
  tools_ledger.py fixed <entry-id> <commit> [<entry-id> <commit> ...]
        an open entry whose defect was repaired in /repo by <commit>: it is removed from its
        fragment / known_findings.json and recorded as
        'fixed: property=<id> <commit> <what failed>' (status fixed; matches nothing)
"""
import glob
import json
import os
import sys

HERE = os.path.dirname(os.path.abspath(__file__))
MAIN = os.path.join(HERE, 'known_findings.json')


def fragments():
    return sorted(glob.glob(os.path.join(HERE, 'known_findings.d', '*.json')))


def load(fn):
    with open(fn) as f:
        return json.load(f)


def save(fn, d):
    with open(fn, 'w') as f:
        json.dump(d, f, indent=1)
        f.write('\n')


def status(ids):
    for fn in [MAIN] + fragments():
        for e in load(fn)['findings']:
            if e.get('status') != 'open':
                continue
            pid = e['property']
            if ids and pid not in ids:
                continue
            hit = '?'
            ev = os.path.join(HERE, 'evidence', pid + '.json')
            if os.path.exists(ev):
                k = load(ev).get('coverage', {}).get('known_findings_hit', {})
                hit = k.get(e['id'], 0)
            print(f"{pid} {e['id']:55s} hit={hit}  [{os.path.basename(fn)}]")


def fixed(pairs):
    main = load(MAIN)
    for eid, commit in pairs:
        found = None
        for fn in [MAIN] + fragments():
            d = main if fn == MAIN else load(fn)
            for e in d['findings']:
                if e['id'] == eid and e.get('status') == 'open':
                    found = e
                    d['findings'].remove(e)
                    if fn != MAIN:
                        save(fn, d)
                    break
            if found:
                break
        if not found:
            print('no open entry', eid)
            continue
        main['findings'].append({
            'property': found['property'], 'id': f"{found['property']}-fixed-{commit}-{eid.split('-', 1)[1]}",
            'status': 'fixed', 'commit': commit, 'witness': found.get('witness'), 'what': found['what'],
            'record': f"fixed: property={found['property']} {commit} {found['what']}"})
        print('fixed', eid, commit)
    save(MAIN, main)


if __name__ == '__main__':
    if len(sys.argv) >= 2 and sys.argv[1] == 'status':
        status(set(sys.argv[2:]))
    elif len(sys.argv) >= 4 and sys.argv[1] == 'fixed':
        a = sys.argv[2:]
        fixed(list(zip(a[0::2], a[1::2])))
    else:
        print(__doc__)
