PRINT fact&(3)

FUNCTION fact& (n%)
  IF n% <= 1 THEN
    fact& = 1
  ELSE
    fact& = n% * fact&(n% - 1)
  END IF
END FUNCTION
