outer 2
PRINT "end"

SUB outer (n%)
  PRINT "outer"; n%
  inner n% + 1
  PRINT "outer done"
END SUB

SUB inner (k%)
  PRINT "inner"; k%
END SUB
