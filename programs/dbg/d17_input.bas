' @script {"input": ["5", "ab,7"], "inkey": ["k"], "rnd": [0.25], "timer": [12.5]}
INPUT "n"; n%
PRINT n% * 2
INPUT a$, b%
PRINT a$; b%
k$ = INKEY$
r! = RND
t! = TIMER
PRINT k$; r!; t!
