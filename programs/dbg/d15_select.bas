FOR i% = 1 TO 4
  SELECT CASE i%
  CASE 1
    PRINT "one"
  CASE 2, 3
    PRINT "mid"; i%
  CASE ELSE
    EXIT FOR
  END SELECT
NEXT i%
PRINT "out"; i%
