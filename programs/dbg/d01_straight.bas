x% = 1
y% = x% + 2
PRINT x%; y%
z$ = "a" + "b"
PRINT z$
