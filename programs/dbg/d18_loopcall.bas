c% = 0
DO
  c% = c% + 1
  bump c%
  IF c% >= 2 THEN EXIT DO
LOOP
PRINT "c ="; c%
END

SUB bump (v%)
  PRINT "bump"; v%
END SUB
