t% = 0
FOR i% = 1 TO 3
  t% = t% + i%
  PRINT i%
NEXT i%
PRINT t%
