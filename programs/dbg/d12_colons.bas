a% = 1: b% = 2: PRINT a% + b%
c% = a%: PRINT c%: c% = c% + b%
PRINT c%
