x% = 1
GOSUB bump
PRINT x%
GOSUB bump
PRINT x%
END
bump:
x% = x% * 2
RETURN
