a% = inc%(1): b% = inc%(a%): PRINT a%; b%
addto a%, inc%(b%)
PRINT a%

FUNCTION inc% (n%)
  inc% = n% + 1
END FUNCTION

SUB addto (x%, y%)
  x% = x% + y%
END SUB
