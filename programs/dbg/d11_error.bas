x% = 32767
PRINT "before"
x% = x% + 1
PRINT "never"
