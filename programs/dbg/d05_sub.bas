DECLARE SUB show (n%)
a% = 3
show a%
PRINT "back"
show 7
END

SUB show (n%)
  m% = n% * 2
  PRINT m%
END SUB
