x% = 1
PRINT "a"
GOSUB sub1
PRINT "b"
END
sub1:
x% = x% + 1
PRINT "in sub1"; x%
RETURN
