DEFINT A-Z
CONST k = 3
DIM v(1 TO 2)
TYPE pt
  x AS INTEGER
END TYPE
DIM p AS pt
v(1) = k
' a comment line

p.x = v(1) + 1
DATA 1, 2
PRINT p.x
READ q
PRINT q
