x% = 2
IF x% = 1 THEN
  PRINT "one"
ELSEIF x% = 2 THEN
  PRINT "two"
ELSE
  PRINT "other"
END IF
IF x% > 5 THEN PRINT "big" ELSE PRINT "small"
PRINT "done"
