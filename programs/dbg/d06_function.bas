x% = 4
y% = twice%(x%) + 1
PRINT y%
PRINT twice%(2); twice%(3)

FUNCTION twice% (n%)
  twice% = n% * 2
END FUNCTION
