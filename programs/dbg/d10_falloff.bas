x% = 5
WHILE x% > 3
  x% = x% - 1
WEND
PRINT x%
