ON ERROR GOTO handler
x% = 32767
PRINT "start"
x% = x% + 1
PRINT "resumed"; x%
END
handler:
PRINT "caught"
RESUME NEXT
