DECLARE FUNCTION zero% (a%)
DECLARE FUNCTION twice% (a%)
PRINT 31
PRINT 41 + zero%(1)
x% = zero%(2) + zero%(3)
PRINT 61 + twice%(4): PRINT 62
IF zero%(5) = 0 THEN
  PRINT 81
END IF
PRINT 101

FUNCTION zero% (a%)
  PRINT 131
  zero% = 0
END FUNCTION

FUNCTION twice% (a%)
  PRINT 181 + zero%(a%)
  twice% = zero%(a% + 1)
  PRINT 201
END FUNCTION
