DECLARE SUB walk (n%)
DECLARE FUNCTION deep% (n%)
PRINT 31
walk 3
PRINT 51
PRINT 61 + deep%(2)
PRINT 71
END

SUB walk (n%)
  PRINT 111
  IF n% > 0 THEN CALL walk(n% - 1)
  PRINT 131
  IF n% > 1 THEN
    walk 0
  END IF
END SUB

FUNCTION deep% (n%)
  PRINT 201
  IF n% > 0 THEN
    PRINT 221 + deep%(n% - 1)
  ELSE
    PRINT 241
  END IF
  deep% = 0
END FUNCTION
