CALL outer(1): PRINT 11
inner 2
PRINT 31
FOR i% = 1 TO 2
  CALL inner(i%)
  PRINT 61
NEXT i%
PRINT 81
END

SUB outer (a%)
  PRINT 121
  inner a%
  PRINT 141: CALL inner(a% + 1): PRINT 142
END SUB

SUB inner (b%)
  IF b% = 2 THEN
    PRINT 191
  ELSE
    PRINT 211
  END IF
END SUB
