DO
  k% = k% + 1
  PRINT 31
LOOP UNTIL k% >= 2
WHILE k% < 4
  k% = k% + 1
  PRINT 71: PRINT 72
WEND
DO WHILE k% < 6
  PRINT 101
  k% = k% + 1
LOOP
FOR i% = 1 TO 2
  FOR j% = 1 TO 3
    IF j% = 2 THEN EXIT FOR
    PRINT 161
  NEXT j%
  PRINT 181
NEXT i%
FOR i% = 3 TO 1
  PRINT 211
NEXT i%
PRINT 231
