gosub Init
goto Main
Init:
  count = 2
  return
Main: print "main"; count
count = count - 1
if count > 0 then goto Main
gosub 100
end
100 print "hundred"
110 return
