declare function Fact& (n%)
declare function Twice! (x!)
print Fact&(5); Twice!(1.5)
r& = Fact&(3) + Fact&(2)
print r&
function Fact& (n%)
  if n% <= 1 then
    Fact& = 1
  else
    Fact& = n% * Fact&(n% - 1)
  end if
end function
function Twice! (x!)
  Twice! = x! * 2
end function
