a = 1.5: b% = 2: c$ = "s"
print a; b%; c$
print a, b%, c$
print a;
print b%,
print
print ; ; a
print , a
print using "##.##"; a
print using "& #"; c$; b%
print -a; +b%; (a)
