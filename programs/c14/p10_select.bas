for v = 1 to 7
  select case v
    case 1
      print "one";
    case 2, 3
      print "few";
    case 4 to 5
      print "mid";
    case is >= 7
      print "top";
    case else
      print "other";
  end select
next
print
t$ = "b"
select case t$: case "a": print 1: case "b": print 2: end select
