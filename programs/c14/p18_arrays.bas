declare sub Fill (a() as integer, n as integer)
declare function Sum% (a() as integer)
dim v(1 to 4) as integer
dim w%(3), m(1, 2 to 3)
call Fill(v(), 4)
Fill w%(), 3
print Sum%(v()); Sum%(w%())
print lbound(v); ubound(v); lbound(m, 2); ubound(m, 2)
m(1, 3) = 2.5: print m(1, 3)
sub Fill (a() as integer, n as integer)
  for i = lbound(a) to ubound(a)
    a(i) = i * n
  next
end sub
function Sum% (a() as integer)
  for i = lbound(a) to ubound(a): t = t + a(i): next
  Sum% = t
end function
