on error goto Handler
x = 0
print "before"
y = 10 \ x
print "after"; y
dim a(2)
a(5) = 1
print "end"
end
Handler:
print "error"; err
resume next
