a = 5: b = 3
print a and b; a or b; a xor b; not a; a eqv b; a imp b
print a mod b; a \ b; a / b; a ^ 2; -a ^ 2
print (a > b) and (b > 1); not (a = b) or 0
c = a > b: d = not c
print c; d
if a > b and not (b = 0) then print "ok"
if a > b or x then if b then print "nested"
