declare function AddOne% (Value%)
declare sub ShowAll ()
type Item
  Qty as integer
  Price as single
end type
dim shared Stock(2) as Item
dim shared Grand as single
const Rate = 2
STOCK(1).QTY = 3: stock(1).price = 1.5
Stock(2).Qty = addone%(STOCK(1).qty): stock(2).PRICE = RATE
showall
PRINT grand; ADDONE%(rate)
sub ShowAll
  for N = 1 to 2
    GRAND = Grand + stock(n).QTY * Stock(N).price
  next n
end sub
function AddOne% (Value%)
  ADDONE% = value% + 1
end function
