a = 5
if a > 3 then print "gt": a = a - 1 else print "le": a = a + 1
print a
if a = 4 then b = 1: c = 2
print b; c
if a <> 4 then b = 7 else if a = 4 then b = 9
print b
x = 2: if x = 2 then print "two"
