declare sub Hello ()
declare sub Say (t$)
LET a = 1
let b$ = "q"
c = a + 1
dim d(2)
LET d(1) = 5
Hello
CALL Hello
call Say("x")
Say b$
if c = 2 then let e = 3 else e = 4
if c = 2 then call Hello else Hello
print a; b$; c; d(1); e
sub Hello
  print "hello"
end sub
sub Say (t$)
  print "say "; t$
end sub
