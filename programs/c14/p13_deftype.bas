DEFINT I-K
DEFSTR S
defdbl d
const Pi# = 3.25
i = 7.6: j = 2
s = "str"
d = 1 / 4
x! = i / j
print i; j; s; d; x!; Pi#
k% = 3: l& = 100000: m! = 1.5: n# = 2.25
print k% + l&; m! * n#
