x=1:y=2:IF x<y THEN PRINT"a";x ELSE PRINT"b";y
FOR i=1 TO 3:s=s+i:NEXT:PRINT s
a$="q":b$=a$+"r":PRINT b$;LEN(b$)
DIM t(3):t(1)=2:t(2)=t(1)*3:PRINT t(2)
IF(x=1)AND(y=2)THEN PRINT"both"
PRINT(x+y)*2;-x;x-y
