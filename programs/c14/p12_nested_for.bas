dim grid(2, 2) as integer
for r = 0 to 2
  for c = 0 to 2
    grid(r, c) = r * 3 + c
  next c
next r
for r = 0 to 2: for c = 0 to 2: t = t + grid(r, c): next c, r
print t
for a% = 1 to 2
for b% = 1 to 2
print a% * b%;
next
next
print
