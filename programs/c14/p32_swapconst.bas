const A% = 2
const B$ = "k"
const C = A% * 3
x = 1: y = 2
t = x: x = y: y = t
print x; y; A%; B$; C
dim q(C)
q(C) = 9: print q(6)
dim z(3): z(3) = 1: print z(3)
