10 restore 60
20 read a, b
30 print a; b
40 if a = 3 then restore 70: read c: print c
50 goto 90
60 data 3, 4
Tail: c = c + 1
70 data 5
90 gosub 200
95 on error goto 300
97 dim arr(2): arr(7) = 1
99 end
200 print "sub": return
300 print "err": resume next
