for n = 1 to 4
  if n = 1 then
    print "a";
  elseif n = 2 then print "b";
  elseif n = 3 then
    print "c";: print "c2";
  else
    print "d";
  end if
next n
print
if n > 4 then
else
  print "never"
end if
