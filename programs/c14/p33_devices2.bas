def seg = 0
poke 1040, 7: v = peek(1040)
def seg
screen 0: width 80
view print 2 to 10
locate , 5: locate 3: locate 4, 6, 1
color , 2: color 3
sound 440, 1: play "cde"
print v; "done"
view print
