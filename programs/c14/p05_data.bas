restore Second
read a$, b$
print a$; "|"; b$
restore First
read n, m$, q$
print n; m$; q$
First:
data 12, hello world ,"quoted, with: colon"
Second: data it's,  REM not a comment
data "x:y"
