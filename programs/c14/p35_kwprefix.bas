printer = 1: fore = 2: ifx = 3: tox = 4
ends = 5: remark = 6: datax = 7: elsewhere = 8
thenx = 9: nextone = 10: gotoit = 11: letter$ = "L"
if ifx then printer = fore + tox
for fore = 1 to tox step ends - 3: nextone = nextone + fore: next fore
print printer; fore; ifx; tox; ends; remark; datax; elsewhere
print thenx; nextone; gotoit; letter$
x=printer:y=x+remark:print y
