a%=&H1F:b&=&HFFFF&:c=&O17
d=1E2+2.5D1-.5+3.
e#=1.5#*2!:f&=100000&\3
print a%;b&;c;d;e#;f&
print 2^3^2;-2^2;(1+2)*3-4/2
g=5:h=g-1:i=g - -1:j=g+-1
print g;h;i;j;7 mod 3;7\2
