declare sub Work (n%)
call Work(3)
Work 1
end
sub Work (n%)
  i% = 0
Again:
  i% = i% + 1
  if i% < n% then goto Again
  gosub Show
  exit sub
Show:
  print "i ="; i%
  return
end sub
