'#inkey: a||b
'#rnd: 0.25|0.75
'#timer: 10.5|11.5
randomize 3
k$ = inkey$
print k$; inkey$ = ""; inkey$
print rnd; rnd(1)
t = timer
print timer - t
cls : beep
color 7, 1: locate 2, 3: print "at"
