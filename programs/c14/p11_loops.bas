i = 0
do while i < 3
  i = i + 1
loop
print i
do
  i = i - 1
  if i = 1 then exit do
loop while i > 0
print i
do until i >= 2: i = i + 1: loop
print i
while i < 5
  i = i + 2
wend
print i
for j = 10 to 1 step -3
  if j < 5 then exit for
  print j;
next j
print
