a$ = "print : goto 10 ' not a comment"
b$ = "REM inside"
print a$
print b$; " IF then Else"; len(a$)
c$ = "it's": print c$ + "!" ' real comment: print "no"
