declare sub Show (v as integer, t$)
declare sub Bump (n%)
dim k as integer
k = 4
call Show(k, "a")
Show k + 1, "b"
Bump k
print k
call Bump((k))
print k
Bump (k)
print k
end
sub Show (v as integer, t$)
  print t$; v
end sub
sub Bump (n%)
  n% = n% + 10
end sub
