x	=	1  
	if x = 1 then	
		print	"tab" ;	x	
	end if   
for i = 1 to 2	: print i :	next	
   y   =   x   +   1   :   print   y
