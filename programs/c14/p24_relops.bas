a = 1: b = 2
print a < b; a > b; a = b; a <> b; a >< b
print a <= b; a =< b; a >= b; a => b
if a<>b then print "ne"
if a><b then print "ne2"
if a=<b then print "le"
if b=>a then print "ge"
select case a
  case is <> 2: print "c1"
end select
select case b
  case is >< 2: print "c2"
  case is => 2: print "c3"
end select
