DIM Total AS INTEGER, tItLe AS STRING
CONST Limit = 3
FOR Idx = 1 TO Limit
  Total = Total + Idx * 2
NEXT Idx
TITLE = "Sum Is"
PRINT Title; total; LIMIT
If TOTAL > 10 Then Print "big" Else Print "small"
