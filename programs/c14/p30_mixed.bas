DECLARE FUNCTION Area! (w!, h!)
DECLARE SUB Report (name$, v!)
TYPE Rect
  w AS SINGLE
  h AS SINGLE
END TYPE
DIM SHARED calls AS INTEGER
DIM r AS Rect
READ r.w, r.h
Start:
  Report "area", Area!(r.w, r.h)
  r.w = r.w - 1
  IF r.w > 0 THEN GOTO Start
PRINT "calls"; calls
DATA 2, 3.5
END
FUNCTION Area! (w!, h!)
  calls = calls + 1
  Area! = w! * h!
END FUNCTION
SUB Report (name$, v!)
  PRINT name$; "="; v!
END SUB
