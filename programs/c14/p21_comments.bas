' leading comment
REM another one: print "no"

x = 1 ' trailing
   ' indented comment
rem lower rem
y = 2: REM after colon: y = 3
print x; y 'no blank before

if x = 1 then ' block if with comment
  print "one" ' inner
end if ' done
