declare sub Inc ()
declare sub Cnt ()
dim shared total as integer
dim other as integer
other = 5
Inc
call Inc
print total
Cnt
Cnt
sub Inc
  total = total + 1
end sub
sub Cnt static
  n = n + 1
  total = total + n
  print n; total
end sub
