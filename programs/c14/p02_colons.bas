x = 1: y = 2: z = x + y
for i = 1 to 3: s = s + i: next i
print x; y; z; s: print "done"
while s > 0: s = s - 4: wend: print s
do: k = k + 1: loop until k >= 3: print k
