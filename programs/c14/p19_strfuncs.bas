s$ = "  Hello, World  "
print ltrim$(rtrim$(s$)); len(s$)
print left$(s$, 4); "|"; right$(s$, 3); "|"; mid$(s$, 3, 5)
print ucase$(s$); lcase$(s$)
print instr(s$, "World"); instr(5, s$, "l")
print asc("A"); chr$(66); str$(12); val("3.5x")
print string$(3, "z"); space$(2); "e"
print abs(-3); int(2.7); cint(2.5); clng(3.5)
