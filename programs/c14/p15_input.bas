'#input: 12|abc, 7|x
input "n"; n%
input a$, m
input ; "again", l$
print n% + m; a$; l$
