type Pt
  x as integer
  y as integer
end type
type Shape
  origin as Pt
  tag as string
  w as single
end type
dim s as Shape
dim pts(2) as Pt
s.origin.x = 3: s.origin.y = 4
s.w = 2.5: s.tag = "sq"
pts(1).x = s.origin.x * 2
pts(2).y = pts(1).x + 1
print s.tag; s.origin.x; s.origin.y; s.w; pts(1).x; pts(2).y
