DEFINT A-Z
CONST bse = 10
x = 3
PRINT sumto(x); x
PRINT scale#(1.5, x)

FUNCTION sumto (n)
  CONST one = 1
  IF n <= 0 THEN
    sumto = 0
  ELSE
    t = n + sumto(n - one)
    sumto = t
  END IF
END FUNCTION

FUNCTION scale# (f AS DOUBLE, k AS INTEGER)
  r# = f * k + bse
  scale# = r#
END FUNCTION
