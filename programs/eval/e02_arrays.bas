DIM a(1 TO 3) AS INTEGER
DIM b(1, -1 TO 1) AS LONG
DIM n$(2)
k% = 2
a(1) = 11: a(2) = 22: a(3) = 33
b(0, -1) = 5: b(0, 0) = 6: b(0, 1) = 7: b(1, -1) = 8: b(1, 0) = 9: b(1, 1) = 10
n$(0) = "zero": n$(1) = "one": n$(2) = "two"
PRINT a(k%); b(1, k% - 2); n$(k%)
PRINT k%
a(k%) = a(1) + a(3)
PRINT a(2)
