TYPE vec
  x AS INTEGER
  y AS SINGLE
  nm AS STRING
END TYPE
DIM v AS vec
DIM vs(1 TO 2) AS vec
v.x = 3: v.y = 1.5: v.nm = "vee"
vs(1).x = 10: vs(1).y = .25: vs(1).nm = "one"
vs(2).x = 20: vs(2).y = .75: vs(2).nm = "two"
showvec v, 4
sumvecs vs(), 2
localstuff 6
PRINT v.x; vs(2).x

SUB showvec (q AS vec, bonus AS INTEGER)
  DIM tmp AS INTEGER
  tmp = bonus * 2
  q.x = q.x + 1
  PRINT q.x; q.y; q.nm
END SUB

SUB sumvecs (arr() AS vec, n AS INTEGER)
  DIM t AS SINGLE
  FOR i% = 1 TO n
    t = t + arr(i%).y
  NEXT
  arr(1).x = arr(1).x + arr(2).x
  PRINT t; arr(1).x; arr(2).nm
END SUB

SUB localstuff (k AS INTEGER)
  DIM la(1 TO 3) AS INTEGER
  DIM lr AS vec
  DIM lvs(0 TO 1) AS vec
  DIM ls AS STRING
  DIM ld AS DOUBLE
  la(1) = k: la(2) = k * 2: la(3) = k * 3
  lr.x = k + 1: lr.y = 2.5: lr.nm = "loc"
  lvs(0).x = 7: lvs(1).nm = "lv"
  ls = "str": ld = 1.125
  PRINT la(2); lr.x; lr.nm; lvs(0).x; lvs(1).nm; ls; ld
END SUB
