CONST gi = 12
CONST gl = 100000
CONST gs! = 2.5
CONST gd# = .125
CONST gt$ = "global"
CONST gsum = gi + 3
CONST neg = -7
a% = gi + 1
b$ = gt$ + "!"
PRINT a%; b$; gsum; neg
show a%
PRINT fval%(2)

SUB show (p%)
  CONST li = 5
  CONST lt$ = "local"
  CONST lmix = li * gi
  q% = p% + li + gi
  PRINT q%; lt$; lmix; gt$
END SUB

FUNCTION fval% (k%)
  CONST fk = 3
  fval% = k% * fk + neg
END FUNCTION
