CONST ci = 7
CONST cs = "konst"
CONST cd = 2.5
i% = -3
l& = 100000
s! = 1.5
d# = 0.25
t$ = "text"
u = 4
PRINT i%; l&; s!; d#; t$; u
i% = i% + ci
PRINT i%
