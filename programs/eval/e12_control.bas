DIM t(1 TO 3) AS INTEGER
acc% = 0
FOR i% = 1 TO 3
  PRINT i%
  t(i%) = i% * i%
  GOSUB addit
NEXT
n% = 3
DO WHILE n% > 0
  SELECT CASE n%
    CASE 2
      m$ = "two"
    CASE ELSE
      m$ = "other"
  END SELECT
  n% = n% - 1
LOOP
IF acc% > 10 THEN
  r! = half!(acc%) + half!(n%)
ELSE
  r! = -1
END IF
PRINT acc%; m$; r!
END

addit:
acc% = acc% + t(i%)
RETURN

FUNCTION half! (v%)
  h! = v% / 2
  IF h! > 3 THEN
    h! = h! - .5
  END IF
  half! = h!
END FUNCTION
