TYPE pt
  x AS INTEGER
  y AS INTEGER
END TYPE
DIM SHARED g AS LONG
DIM SHARED ga(1 TO 2) AS INTEGER
DIM v AS INTEGER
DIM w(1 TO 2) AS INTEGER
DIM p AS pt
g = 500: ga(1) = 51: ga(2) = 52
v = 1: w(1) = 10: w(2) = 20: p.x = 3: p.y = 4
work v, w(2), p.y, "lit"
work v, w(1), p.x, "again"
PRINT v; w(1); w(2); p.x; p.y; g

SUB work (a AS INTEGER, b AS INTEGER, c AS INTEGER, s AS STRING)
  STATIC calls AS INTEGER
  DIM tot AS LONG
  CONST lc = 9
  calls = calls + 1
  tot = a + b + c + lc
  a = a + 1
  b = b + calls
  g = g + tot
  PRINT calls; tot; s; ga(2)
END SUB
