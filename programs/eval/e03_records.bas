TYPE inner
  p AS INTEGER
  q AS STRING
END TYPE
TYPE outer
  n AS LONG
  m AS inner
  z AS DOUBLE
END TYPE
DIM r AS outer
DIM arr(1 TO 2) AS inner
DIM before AS INTEGER
before = 99
r.n = 123456: r.m.p = 7: r.m.q = "qq": r.z = 1.25
arr(1).p = 1: arr(1).q = "first": arr(2).p = 2: arr(2).q = "second"
PRINT r.n; r.m.p; r.m.q; r.z; arr(2).q; before
r.m.p = r.m.p + arr(2).p
PRINT r.m.p
