n% = 3
DIM d(1 TO n%) AS LONG
DIM f(1 TO 3) AS LONG
FOR i% = 1 TO n%
  PRINT i%
  d(i%) = i% * 100
  PRINT i%
  f(i%) = d(i%) + 1
NEXT
total f(), n%
PRINT d(2); f(2)

SUB total (arr() AS LONG, cnt%)
  s& = 0
  FOR j% = 1 TO cnt%
    s& = s& + arr(j%)
  NEXT
  arr(2) = s&
  PRINT s&; UBOUND(arr)
END SUB
