DEFLNG L
DEFDBL D
DEFSTR S
DEFINT I-K
lng = 123456
dbl = 3.75
str = "sss"
i = -5: j = 32767: k = 0
big& = 2147483647
sm! = .1
neg# = -1.5
PRINT lng; dbl; str; i; j; k; big&; sm!; neg#
typed i, dbl
PRINT lng

SUB typed (ip, dp)
  DIM loclong AS LONG
  DIM locdbl AS DOUBLE
  DIM locstr AS STRING
  DIM locsng AS SINGLE
  loclong = ip * 100000
  locdbl = dp / 3
  locstr = "in" + "sub"
  locsng = 1 / 3
  lx = loclong + 1
  dx = locdbl * 2
  sx = locstr + "!"
  PRINT loclong; locdbl; locstr; locsng; lx; dx; sx
END SUB
