DIM SHARED depth AS INTEGER
DIM x AS INTEGER
DIM y AS LONG
DIM z#(1 TO 2)
x = 4: y = 70000: z#(1) = .5: z#(2) = 2.25
outer x, y, z#(2)
PRINT x; y; z#(2)
CALL outer((x), y + 1, 1.5)
PRINT x; y; z#(2)

SUB outer (a AS INTEGER, b AS LONG, c AS DOUBLE)
  DIM lcl AS INTEGER
  depth = depth + 1
  lcl = a * 2
  inner a, lcl
  b = b + twice&(lcl)
  c = c + a
  depth = depth - 1
END SUB

SUB inner (p AS INTEGER, q AS INTEGER)
  depth = depth + 1
  p = p + q
  q = twice&(p) - 1
  depth = depth - 1
END SUB

FUNCTION twice& (v AS INTEGER)
  CONST two = 2
  depth = depth + 1
  r& = v * two
  twice& = r&
  depth = depth - 1
END FUNCTION
