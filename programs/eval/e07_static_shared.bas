TYPE cfg
  lvl AS INTEGER
  tag AS STRING
END TYPE
DIM SHARED total AS LONG
DIM SHARED names$(1 TO 2)
DIM SHARED conf AS cfg
DIM SHARED after AS INTEGER
DIM hidden AS INTEGER
total = 10
names$(1) = "ann": names$(2) = "bob"
conf.lvl = 3: conf.tag = "cfg": after = 9
hidden = 77
bump 5
bump 6
keep 2
keep 3
PRINT total; hidden

SUB bump (n AS INTEGER)
  STATIC cnt AS INTEGER
  STATIC last$
  STATIC hist(1 TO 2) AS LONG
  cnt = cnt + 1
  PRINT cnt
  hist(cnt) = n * 2
  last$ = names$(cnt)
  total = total + n + conf.lvl
  PRINT cnt; last$; hist(1); total
END SUB

SUB keep (m AS INTEGER) STATIC
  acc& = acc& + m
  w$ = w$ + "x"
  total = total + acc&
  PRINT acc&; w$
END SUB
