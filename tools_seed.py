#!/usr/bin/env python3
"""Seeded-change bookkeeping (DESIGN section 10.4).

  tools_seed.py verify <src_dir> <name>      # src_dir has patch.diff demo.py meta.json
      confirms in a scratch worktree of /repo: patch applies, demo exits 1 with
      it and 0 without it, the repository's 2008 tests pass with it; then stores
      it as /verif/seeded/<name>/
  tools_seed.py score <name> [ID ...]        # run quick checks against the patched tree
      (scratch worktree, QBEE_REPO=...); default: the property the seed targets;
      'all' = every claimed check.  Appends to seeded/<name>/results.json
"""
import json
import os
import shutil
import subprocess
import sys
import time

HERE = os.path.dirname(os.path.abspath(__file__))
REPO = '/repo'
PY = '/venv/bin/python'


def sh(cmd, cwd=None, env=None, timeout=3600):
    e = dict(os.environ)
    if env:
        e.update(env)
    r = subprocess.run(cmd, shell=True, cwd=cwd, env=e, capture_output=True, text=True, timeout=timeout)
    return r.returncode, (r.stdout + r.stderr)


def worktree(tag):
    wt = f'/tmp/svwt_{tag}_{os.getpid()}'
    sh(f'git -C {REPO} worktree remove --force {wt}')
    rc, out = sh(f'git -C {REPO} worktree add -q --detach {wt} HEAD')
    if rc:
        raise SystemExit('worktree failed: ' + out)
    return wt


def drop(wt):
    sh(f'git -C {REPO} worktree remove --force {wt}')
    shutil.rmtree(wt, ignore_errors=True)


def verify(src, name, run_tests=True):
    patch = os.path.join(src, 'patch.diff')
    demo = os.path.join(src, 'demo.py')
    meta = {}
    try:
        meta = json.load(open(os.path.join(src, 'meta.json')))
    except Exception as e:
        meta = {'meta_error': str(e)}
    wt = worktree(name)
    res = {}
    try:
        rc, out = sh(f'{PY} {demo}', cwd=wt, env={'PYTHONPATH': wt})
        res['demo_clean_exit'] = rc
        rc, out = sh(f'git apply {patch}', cwd=wt)
        res['patch_applies'] = (rc == 0)
        if rc:
            res['apply_output'] = out[-500:]
        else:
            rc, out = sh(f'{PY} {demo}', cwd=wt, env={'PYTHONPATH': wt})
            res['demo_patched_exit'] = rc
            res['demo_patched_output'] = out[-600:]
            if run_tests:
                t = time.time()
                rc, out = sh(f'{PY} -m pytest -q -p no:cacheprovider -x -n 6', cwd=wt, timeout=7200)
                res['tests_exit'] = rc
                res['tests_tail'] = out.strip().splitlines()[-1] if out.strip() else ''
                res['tests_wall_s'] = round(time.time() - t)
    finally:
        drop(wt)
    ok = res.get('demo_clean_exit') == 0 and res.get('patch_applies') and \
        res.get('demo_patched_exit') == 1 and (not run_tests or res.get('tests_exit') == 0)
    res['confirmed'] = bool(ok)
    print(json.dumps(res, indent=1))
    if ok:
        dst = os.path.join(HERE, 'seeded', name)
        os.makedirs(dst, exist_ok=True)
        shutil.copy(patch, os.path.join(dst, 'patch.diff'))
        shutil.copy(demo, os.path.join(dst, 'demo.py'))
        meta['verified_by_coordinator'] = res
        meta['repo_head'] = sh(f'git -C {REPO} rev-parse --short HEAD')[1].strip()
        json.dump(meta, open(os.path.join(dst, 'meta.json'), 'w'), indent=1)
        print('stored', dst)
    return ok


def score(name, ids):
    dst = os.path.join(HERE, 'seeded', name)
    meta = json.load(open(os.path.join(dst, 'meta.json')))
    if not ids:
        ids = [meta.get('property')]
    if ids == ['all']:
        m = json.load(open(os.path.join(HERE, 'MANIFEST.json')))
        ids = [c['property_id'] for c in m['checks']]
    wt = worktree(name)
    results = {}
    try:
        rc, out = sh(f'git apply {dst}/patch.diff', cwd=wt)
        if rc:
            raise SystemExit('patch does not apply any more: ' + out)
        for pid in ids:
            t = time.time()
            rc, out = sh(f'{HERE}/bin/check {pid} --tier quick', cwd=HERE,
                         env={'QBEE_REPO': wt, 'QV_EVIDENCE_DIR': f'/tmp/svev_{os.getpid()}', 'QV_REPLAY_DIR': f'/tmp/svev_{os.getpid()}/replays'}, timeout=3600)
            lines = [l for l in out.splitlines() if l.startswith(('VIOLATION', 'HARNESS'))]
            results[pid] = {'exit': rc, 'wall_s': round(time.time() - t), 'violations': len([l for l in lines if l.startswith('VIOLATION')]),
                            'first': lines[:2], 'tail': out.strip().splitlines()[-1:] }
            print(pid, results[pid]['exit'], results[pid]['wall_s'], 's', lines[:1])
    finally:
        drop(wt)
        shutil.rmtree(f'/tmp/svev_{os.getpid()}', ignore_errors=True)
    rp = os.path.join(dst, 'results.json')
    old = {}
    if os.path.exists(rp):
        old = json.load(open(rp))
    old.update(results)
    json.dump(old, open(rp, 'w'), indent=1)


if __name__ == '__main__':
    if len(sys.argv) < 3:
        print(__doc__)
        sys.exit(2)
    if sys.argv[1] == 'verify':
        ok = verify(sys.argv[2], sys.argv[3], run_tests='--no-tests' not in sys.argv)
        sys.exit(0 if ok else 1)
    elif sys.argv[1] == 'score':
        score(sys.argv[2], sys.argv[3:])
